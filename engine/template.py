"""Second stage for the compile-scheme templates: instruction streams, abstract VM (S1) stack
effects as linear expressions, depth dataflow over the template's own CFG, child-evaluation
path languages."""
from .symex import lit, is_lit, TRUE, FALSE, UNIT
from .symdbg import fmt_term

OPCODE = "bytecode::bytecode::OpCode"
PO = "bytecode::program::ProgramObject"


def is_success(p):
    o = p["out"]
    return o[0] == "val" and isinstance(o[1], tuple) and (o[1][0] == "ok" or o[1] == UNIT or o[1][0] not in ("err",))


def is_ok_result(p):
    o = p["out"]
    return o[0] == "val" and isinstance(o[1], tuple) and o[1][0] == "ok"


# --------------------------------------------------------------------------- linear expressions

class Lin:
    """const + Σ coef·symbol (symbols are hashable terms)"""

    def __init__(self, const=0, syms=None):
        self.c = const
        self.s = dict(syms or {})

    def __add__(self, o):
        o = o if isinstance(o, Lin) else Lin(o)
        s = dict(self.s)
        for k, v in o.s.items():
            s[k] = s.get(k, 0) + v
            if s[k] == 0:
                del s[k]
        return Lin(self.c + o.c, s)

    def __neg__(self):
        return Lin(-self.c, {k: -v for k, v in self.s.items()})

    def __sub__(self, o):
        o = o if isinstance(o, Lin) else Lin(o)
        return self + (-o)

    def scale(self, sym):
        """self must be constant: returns const·sym"""
        assert not self.s
        return Lin(0, {sym: self.c}) if self.c else Lin(0)

    def __eq__(self, o):
        o = o if isinstance(o, Lin) else Lin(o)
        return self.c == o.c and self.s == o.s

    def __hash__(self):
        return hash((self.c, tuple(sorted(self.s.items(), key=repr))))

    def is_const(self):
        return not self.s

    def nonneg(self):
        """provably ≥ 0 when all symbols are counts (≥ 0)"""
        return self.c >= 0 and all(v >= 0 for v in self.s.values())

    def __repr__(self):
        parts = [str(self.c)] if self.c or not self.s else []
        for k, v in self.s.items():
            parts.append(("%+d·" % v if v != 1 else "+") + sym_name(k))
        return " ".join(parts).lstrip("+")


def sym_name(k):
    if isinstance(k, tuple) and k and k[0] == "count":
        return "#%s" % (k[1],)
    if isinstance(k, tuple) and k and k[0] == "len":
        return "|%s|" % fmt_term(k[1])
    return fmt_term(k)


def lin_of_term(t, loops=None):
    """Arity/size terms → Lin; None when not linear."""
    if is_lit(t) and isinstance(t[1], int) and not isinstance(t[1], bool):
        return Lin(t[1])
    if t[0] == "app":
        f, a = t[1], t[2]
        if f == "cast":
            return lin_of_term(a[1], loops)
        if f == "add":
            x, y = lin_of_term(a[0], loops), lin_of_term(a[1], loops)
            return None if x is None or y is None else x + y
        if f == "sub":
            x, y = lin_of_term(a[0], loops), lin_of_term(a[1], loops)
            return None if x is None or y is None else x - y
        if f == "len":
            return Lin(0, {("len", a[0]): 1})
    if t[0] == "ctor" and len(t[3]) == 1:  # newtypes Arity(u8), Size(u16), …
        return lin_of_term(t[3][0][1], loops)
    if t[0] == "sym":
        return Lin(0, {t: 1})
    return None


# --------------------------------------------------------------------------- streams

class Item:
    __slots__ = ("kind", "buf", "op", "child", "keep", "frame", "env", "eff", "at", "variants", "base", "loop")

    def __init__(self, kind, **kw):
        self.kind = kind
        for k in self.__slots__[1:]:
            setattr(self, k, kw.get(k))

    def __repr__(self):
        if self.kind == "emit":
            return "emit[%s] %s" % (fmt_term(self.buf), op_name(self.op))
        if self.kind == "rec":
            return "rec[%s] %s keep=%s" % (fmt_term(self.buf), fmt_term(self.child), fmt_term(self.keep))
        if self.kind == "foreach":
            return "foreach %s {%s}" % (fmt_term(self.base), "; ".join(str(v) for v in self.variants))
        return "%s %s" % (self.kind, self.at)


def op_name(op):
    if op[0] == "ctor":
        return "%s%s" % (op[2], "{" + ", ".join("%s: %s" % (n, fmt_term(v)) for n, v in op[3]) + "}" if op[3] else "")
    return fmt_term(op)


def normalise_split_loops(effs):
    """`if let Some((last, init)) = xs.split_last() { for x in init { c(x, false) } c(last, keep) }` is the traversal
    `for (i, x) in xs.iter().enumerate() { c(x, keep && i + 1 == xs.len()) }`: rewrite the effect list into that form so
    that every client sees one loop over the whole list (the symmetric first/rest form has no flag and is left alone)."""
    out = []
    i = 0
    n = len(effs)
    while i < n:
        e = effs[i]
        if e["k"] == "foreach" and not e.get("taken_exit") and e["args"][0][0] == "iter" and not e["args"][0][3] and e["args"][0][2] == "fwd":
            b = e["args"][0][1]
            if b[0] == "app" and b[1] == "init_of":
                whole = b[2][0]
                # the compile of the last element: next `rec` effect (only path-condition effects may stand in between)
                j = i + 1
                while j < n and effs[j]["k"] in ("assume", "assume_ok", "arm"):
                    j += 1
                nxt = effs[j] if j < n else None
                normal = [p for p in e.get("paths", []) if p["out"][0] in ("val", "cont")]
                if nxt is not None and nxt["k"] == "rec" and nxt["args"][0] == ("app", "last_of", (whole,)) and len(normal) == 1:
                    recs = [x for x in normal[0]["eff"] if x["k"] == "rec" and x["args"][0] == e["elem"]]
                    if len(recs) == 1 and recs[0]["args"][5] == FALSE and recs[0]["args"][1:5] == nxt["args"][1:5]:
                        k2 = nxt["args"][5]
                        is_last = ("app", "eq", (("app", "add", (("sym", e["elem"][1], "index"), lit(1))), ("app", "len", (whole,))))
                        keep = FALSE if k2 == FALSE else (is_last if k2 == TRUE else ("app", "and", (k2, is_last)))
                        def fix(x):
                            if x is recs[0]:
                                return dict(x, args=x["args"][:5] + (keep,))
                            return x
                        paths = [dict(p, eff=[fix(x) for x in p["eff"]]) for p in e.get("paths", [])]
                        out.append(dict(e, args=(("iter", whole, "fwd", ("enumerate",)),), paths=paths, merged_split=True))
                        out.extend(effs[i + 1:j])
                        i = j + 1
                        continue
        if e["k"] == "foreach" and e.get("paths"):
            e = dict(e, paths=[dict(p, eff=normalise_split_loops(p["eff"])) for p in e["paths"]])
        out.append(e)
        i += 1
    return out


def stream(effs):
    """Flatten a path's effects to items (emit / rec / foreach / scope / other)."""
    out = []
    for e in effs:
        k = e["k"]
        if k == "emit":
            out.append(Item("emit", buf=e["args"][0], op=e["args"][1], at=e["at"], eff=e))
        elif k == "rec":
            a = e["args"]
            out.append(Item("rec", child=a[0], buf=a[2], env=a[3], frame=a[4], keep=a[5], at=e["at"], eff=e))
        elif k == "foreach" and not e.get("taken_exit"):
            variants = []
            for p in e.get("paths", []):
                variants.append({"items": stream(p["eff"]), "out": p["out"], "eff": p["eff"]})
            out.append(Item("foreach", variants=variants, base=e["args"][0], at=e["at"], eff=e, loop=e.get("loop")))
        elif k in ("foreach", "loop"):
            out.append(Item(k, at=e["at"], eff=e, variants=[], base=e["args"][0] if e["args"] else None))
        else:
            out.append(Item(k, at=e["at"], eff=e))
    return out


def buffers_of(items):
    bs = []
    for it in items:
        if it.kind in ("emit", "rec"):
            if it.buf not in bs:
                bs.append(it.buf)
        elif it.kind == "foreach":
            for v in it.variants:
                for b in buffers_of(v["items"]):
                    if b not in bs:
                        bs.append(b)
    return bs


# --------------------------------------------------------------------------- S1: abstract VM

def slots_in_class(class_term, loops):
    """Number of Slot members of the class constant as Lin over per-path loop counts; None if unknown."""
    # class_term = cp(ProgramObject::Class{0: X})
    if class_term[0] != "app" or class_term[1] != "cp":
        return None
    po = class_term[2][0]
    if po[0] != "ctor" or po[2] != "Class":
        return None
    x = po[3][0][1]
    while x[0] in ("payload",):
        x = x[1]
    if x[0] == "app" and x[1] == "collected":
        lp = loops.get(x[2][0][1])
        if lp is None:
            return None
        total = Lin(0)
        for i, r in enumerate(lp.get("results", [])):
            kind = const_kind(r)
            if kind == "Slot":
                total = total + Lin(0, {("count", lp["loop"], i): 1})
            elif kind != "Method":
                return None
        return total
    if x[0] == "app" and x[1] in ("array", "vec_of"):
        return None
    return None


def const_kind(t):
    """kind of a constant-pool index term cp(ProgramObject::K{…}) → K"""
    while t[0] in ("payload", "ok"):
        t = t[1]
    if t[0] == "app" and t[1] == "cp":
        po = t[2][0]
        if po[0] == "ctor":
            return po[2]
    return None


def op_effect(op, loops):
    """(pops Lin, pushes Lin, kind) for an OpCode ctor term; kind in next/jump/branch/return/label."""
    name = op[2]
    f = dict(op[3])
    one, zero = Lin(1), Lin(0)
    if name in ("Literal", "GetLocal", "GetGlobal"):
        return zero, one, "next"
    if name in ("SetLocal", "SetGlobal"):
        return one, one, "next"   # peek: needs one value, leaves it
    if name == "Object":
        n = slots_in_class(f.get("class"), loops)
        if n is None:
            return None, None, "next"
        return n + 1, one, "next"
    if name == "Array":
        return Lin(2), one, "next"
    if name == "GetField":
        return one, one, "next"
    if name == "SetField":
        return Lin(2), one, "next"
    if name in ("CallMethod", "CallFunction", "Print"):
        n = lin_of_term(f.get("arguments"), loops)
        if n is None:
            return None, None, "next"
        return n, one, "next"
    if name == "Label":
        return zero, zero, "label"
    if name == "Jump":
        return zero, zero, "jump"
    if name == "Branch":
        return one, zero, "branch"
    if name == "Return":
        return zero, zero, "return"
    if name == "Drop":
        return one, zero, "next"
    return None, None, "next"


def label_of(op):
    f = dict(op[3])
    return f.get("name") if op[2] == "Label" else f.get("label")


class DepthResult:
    def __init__(self):
        self.problems = []     # (what, at)
        self.final = None      # Lin depth when falling off the end (None if never)
        self.returns = []      # [(Lin depth, at)]
        self.assumptions = []  # side conditions (non-empty child lists …)
        self.trace = []
        self.rec_paths = None


def keep_net(keep, loop_ctx):
    """Net effect of Rec(child, keep) as ('const', n) | ('last',) | None."""
    if keep == TRUE:
        return ("const", 1)
    if keep == FALSE:
        return ("const", 0)
    if is_last_term(keep, loop_ctx):
        return ("last",)
    return None


def is_last_term(t, loop_ctx):
    """eq(add(index,1), len(base)) / eq(len(base), add(index,1)) for the enclosing loop"""
    if loop_ctx is None or t[0] != "app" or t[1] != "eq":
        return False
    a, b = t[2]
    for x, y in ((a, b), (b, a)):
        if x[0] == "app" and x[1] == "add" and y[0] == "app" and y[1] == "len":
            i, one = x[2]
            if one == lit(1) and i[0] == "sym" and i[2] == "index" and i[1] == loop_ctx["elem"][1]:
                base = loop_ctx["base"]
                bb = base[1] if base[0] == "iter" else base
                if y[2][0] == bb and (base[0] != "iter" or base[2] == "fwd"):
                    return True
    return False


def analyse_buffer(items, buf, loops, loop_ctx=None, start=Lin(0)):
    """Stack-depth dataflow for the instructions that go into `buf`. Returns DepthResult."""
    R = DepthResult()
    seq = [it for it in items if (it.kind in ("emit", "rec") and it.buf == buf) or
           (it.kind == "foreach" and any(buf in buffers_of(v["items"]) for v in it.variants))]
    n = len(seq)
    labels = {}
    for i, it in enumerate(seq):
        if it.kind == "emit" and it.op[0] == "ctor" and it.op[2] == "Label":
            l = label_of(it.op)
            if l in labels:
                R.problems.append(("label %s emitted twice into the same buffer" % fmt_term(l), it.at))
            labels[l] = i
    depth_in = {}
    work = [(0, start)]
    while work:
        i, d = work.pop()
        if i >= n:
            if R.final is None:
                R.final = d
            elif not (R.final == d):
                R.problems.append(("end of the sequence reached with different depths %r vs %r" % (R.final, d), ""))
            continue
        if i in depth_in:
            if not (depth_in[i] == d):
                R.problems.append(("operand-stack depth differs between the edges into `%s`: %r vs %r (path-dependent depth)" % (
                    seq[i], depth_in[i], d), seq[i].at))
            continue
        depth_in[i] = d
        it = seq[i]
        R.trace.append((i, repr(d), repr(it)))
        if it.kind == "rec":
            kn = keep_net(it.keep, loop_ctx)
            if kn is None:
                R.problems.append(("keep flag %s of the recursive compile is not a constant / is-last test (unprovable)" % fmt_term(it.keep), it.at))
                work.append((i + 1, d))
            elif kn[0] == "const":
                work.append((i + 1, d + kn[1]))
            else:
                # only inside a loop: handled by the caller through `last_in_loop`
                R.last_flag = True
                work.append((i + 1, d))
                R.assumptions.append("is-last keep inside loop")
            continue
        if it.kind == "foreach":
            total = Lin(0)
            lp = it.eff
            ok_variants = [v for v in it.variants if v["out"][0] in ("val", "cont")]
            for vi, v in enumerate(it.variants):
                if v["out"][0] not in ("val", "cont"):
                    continue
                ctx = {"elem": lp["elem"], "base": it.base}
                sub = analyse_buffer(v["items"], buf, loops, loop_ctx=ctx, start=Lin(0))
                for p in sub.problems:
                    R.problems.append(("in loop body: " + p[0], p[1]))
                if sub.returns:
                    R.problems.append(("Return emitted inside a loop body", it.at))
                net = sub.final if sub.final is not None else Lin(0)
                if not net.is_const():
                    R.problems.append(("per-iteration stack effect is not constant: %r" % net, it.at))
                    continue
                if getattr(sub, "last_flag", False):
                    # Σ over iterations of [is-last] = 1 for a non-empty sequence
                    total = total + Lin(net.c) .scale(("count", lp["loop"], vi)) + Lin(1)
                    R.assumptions.append("non-empty:%s" % fmt_term(it.base))
                else:
                    if len(ok_variants) == 1:
                        bb = it.base[1] if it.base[0] == "iter" else it.base
                        total = total + Lin(net.c).scale(("len", bb))
                    else:
                        total = total + Lin(net.c).scale(("count", lp["loop"], vi))
            work.append((i + 1, d + total))
            continue
        op = it.op
        if op[0] != "ctor":
            R.problems.append(("emitted instruction is not a constructor term: %s (unprovable)" % fmt_term(op), it.at))
            work.append((i + 1, d))
            continue
        pops, pushes, kind = op_effect(op, loops)
        if pops is None:
            R.problems.append(("cannot determine the operand count of %s (unprovable)" % op_name(op), it.at))
            work.append((i + 1, d))
            continue
        after_pop = d - pops
        if not after_pop.nonneg():
            R.problems.append(("%s needs %r value(s) but only %r are on the stack (relative to the construct's entry)" % (
                op[2], pops, d), it.at))
        nd = after_pop + pushes
        if kind == "return":
            R.returns.append((d, it.at))
            continue
        if kind == "jump":
            l = label_of(op)
            if l not in labels:
                R.problems.append(("jump to a label that this construct does not emit into the same buffer: %s" % fmt_term(l), it.at))
            else:
                work.append((labels[l], nd))
            continue
        if kind == "branch":
            l = label_of(op)
            if l not in labels:
                R.problems.append(("branch to a label that this construct does not emit into the same buffer: %s" % fmt_term(l), it.at))
            else:
                work.append((labels[l], nd))
            work.append((i + 1, nd))
            continue
        work.append((i + 1, nd))
    R.seq = seq
    R.labels = labels
    R.depth_in = depth_in
    unreachable = [seq[i] for i in range(n) if i not in depth_in]
    for u in unreachable:
        R.problems.append(("instruction `%s` is unreachable in the construct's own control flow" % u, u.at))
    return R


# --------------------------------------------------------------------------- child evaluation paths

def rec_paths(seq, labels, max_visits=2, limit=200):
    """Enumerate control-flow paths through the template (each node visited at most max_visits
    times); returns a list of sequences of ('rec', child-term) / ('branch', taken?) events."""
    out = []
    n = len(seq)

    def go(i, visits, acc):
        if len(out) > limit:
            return
        while True:
            if i >= n:
                out.append(tuple(acc))
                return
            if visits.get(i, 0) >= max_visits:
                out.append(tuple(acc) + (("cut",),))
                return
            visits = dict(visits)
            visits[i] = visits.get(i, 0) + 1
            it = seq[i]
            if it.kind == "rec":
                acc = acc + [("rec", it.child, it.keep)]
                i += 1
                continue
            if it.kind == "foreach":
                acc = acc + [("foreach", it)]
                i += 1
                continue
            op = it.op
            name = op[2] if op[0] == "ctor" else "?"
            if name == "Jump":
                l = label_of(op)
                if l not in labels:
                    out.append(tuple(acc) + (("badjump",),))
                    return
                i = labels[l]
                continue
            if name == "Branch":
                l = label_of(op)
                if l in labels:
                    go(labels[l], visits, acc + [("branch", True)])
                go(i + 1, visits, acc + [("branch", False)])
                return
            if name == "Return":
                out.append(tuple(acc) + (("return",),))
                return
            acc = acc + [("op", name, op)]
            i += 1

    go(0, {}, [])
    return out
