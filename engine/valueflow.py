"""Upward value-flow on HIR: how is the value of an expression consumed?

Used by the error-discipline rules (C08, C10): a `Result` (or the `usize` count of
`Write::write`) must be propagated / returned / inspected, never dropped.
The analysis is structural and path-insensitive in the safe direction: every
consumer that is not a *known* discard idiom counts as a use (no false alarms);
the discard idioms are enumerated explicitly.
"""
import re

from .facts import children, walk, is_expr, callee_def, callee_name, peel

# Result/Option methods -------------------------------------------------------
# value of the call is (still) the fallible value, transformed
PASS_THROUGH = {
    "map", "map_err", "and_then", "or_else", "with_context", "context", "attach", "inspect", "inspect_err",
    "as_ref", "as_mut", "cloned", "copied", "flatten", "transpose", "into", "ok_or", "ok_or_else",
}
# diverging / checked consumption: the failure cannot be lost
CHECKED = {"expect", "unwrap", "expect_err", "unwrap_err", "unwrap_unchecked"}
# discard idioms: the failure is turned into a value or dropped
DISCARD = {"ok", "err", "unwrap_or", "unwrap_or_else", "unwrap_or_default", "is_ok", "is_err", "is_ok_and",
           "is_err_and", "map_or", "map_or_else", "iter", "into_iter", "unwrap_or_abort"}

TRY_BRANCH = "std::ops::Try::branch"


DIVERGING_CALLS = ("core::panicking::", "std::panicking::", "std::rt::begin_panic", "std::rt::panic_fmt", "core::panic", "std::process::exit", "std::process::abort",
                   "core::option::expect_failed", "core::result::unwrap_failed")


def _diverges(n):
    """does evaluating this expression never produce a value (it ends in a panic / exit on every path)?"""
    n = peel(n)
    k = n.get("k")
    if k == "Block":
        b = n["block"]
        for st in b.get("stmts", []):
            if st.get("k") in ("Expr", "Semi") and _diverges(st.get("e") or {}):
                return True
        return bool(b.get("expr")) and _diverges(b["expr"])
    if k == "Call":
        cd = callee_def(n) or ""
        return cd.startswith(DIVERGING_CALLS)
    if k == "Match":
        return bool(n.get("arms")) and all(_diverges(a["body"]) for a in n["arms"])
    if k == "If":
        return "else" in n and _diverges(n["then"]) and _diverges(n["else"])
    return False


def _closure_diverges(arg):
    c = peel(arg)
    return c.get("k") == "Closure" and _diverges(c["body"])


class Use:
    """How a value is consumed. kind in:
    fn_return, closure_return, propagated(?), checked(.expect/.unwrap), argument, stored, operand,
    matched, bound, discarded, discard_method, condition, break_value, unknown"""

    def __init__(self, kind, node=None, detail="", cont=None):
        self.kind = kind
        self.node = node       # the consuming construct
        self.detail = detail
        self.cont = cont       # for propagated/checked/pass_through: (node, parents) carrying the derived value

    def __repr__(self):
        return "Use(%s %s)" % (self.kind, self.detail)


def _stmt_of(role, parent):
    m = re.match(r"stmt\[(\d+)\]\.(\w+)", role)
    if not m:
        return None, None
    i = int(m.group(1))
    blk = parent.get("block") if parent.get("k") == "Block" else parent.get("body")
    if not blk or i >= len(blk["stmts"]):
        return None, None
    return blk["stmts"][i], m.group(2)


def consumer(node, parents):
    """Classify the immediate consumer of `node`'s value, climbing through
    value-transparent constructs. Returns a Use."""
    cur = node
    ps = list(parents)
    while True:
        if not ps:
            return Use("fn_return", cur)
        role, par = ps[-1]
        pk = par.get("k")
        up = tuple(ps[:-1])
        if pk == "Block":
            if role == "tail":
                if par.get("label"):
                    return Use("used_block_value", par)
                cur, ps = par, list(up)
                continue
            st, kind = _stmt_of(role, par)
            if st is None:
                return Use("unknown", par, role)
            if kind == "semi":
                return Use("discarded", st, "statement-level drop (`expr;`)")
            if kind == "expr":
                return Use("discarded", st, "expression statement")
            if kind == "let":
                return _let_pattern(st["pat"], st, has_else="els" in st)
            return Use("unknown", par, role)
        if pk == "Loop":
            st, kind = _stmt_of(role, par)
            if st is not None:
                if kind == "semi":
                    return Use("discarded", st, "statement-level drop (`expr;`)")
                if kind == "let":
                    return _let_pattern(st["pat"], st, has_else="els" in st)
                if kind == "expr":
                    return Use("discarded", st, "expression statement")
            if role == "tail":
                return Use("discarded", par, "loop body tail")
            return Use("unknown", par, role)
        if pk in ("DropTemps", "Use", "Type"):
            cur, ps = par, list(up)
            continue
        if pk == "If":
            if role == "cond":
                return Use("condition", par)
            cur, ps = par, list(up)
            continue
        if pk == "Match":
            if role == "scrut":
                if par.get("src") == "TryDesugar":
                    return Use("propagated", par, "`?`", cont=(par, up))
                return Use("matched", par)
            if role.endswith(".guard"):
                return Use("condition", par)
            cur, ps = par, list(up)
            continue
        if pk == "Let":  # `if let PAT = init` / let-chains
            if role == "init":
                return Use("matched", par)
            return Use("unknown", par, role)
        if pk == "Closure":
            return Use("closure_return", par, cont=(par, up))
        if pk == "Ret":
            return Use("fn_return", par)
        if pk == "Break":
            return Use("break_value", par)
        if pk == "Call":
            cd = callee_def(par)
            if role.startswith("args[") and cd == TRY_BRANCH:
                cur, ps = par, list(up)  # branch(x): keep climbing to the TryDesugar match
                continue
            if role.startswith("args["):
                return Use("argument", par, callee_name(par) or (par.get("ctor") or {}).get("path", "?"))
            return Use("operand", par, "callee expression")
        if pk == "MethodCall":
            if role == "recv":
                name = par["name"]
                if name in CHECKED:
                    return Use("checked", par, "." + name + "()", cont=(par, up))
                if name == "unwrap_or_else" and par.get("args") and _closure_diverges(par["args"][0]):
                    # `.unwrap_or_else(|e| panic!(…))` is `.expect(…)` with a hand-written message
                    return Use("checked", par, ".unwrap_or_else(<diverging closure>)", cont=(par, up))
                if name in DISCARD:
                    return Use("discard_method", par, "." + name + "()", cont=(par, up))
                if name in PASS_THROUGH:
                    return Use("pass_through", par, "." + name + "()", cont=(par, up))
                return Use("receiver", par, "." + name + "()", cont=(par, up))
            return Use("argument", par, callee_name(par) or par["name"])
        if pk == "Assign":
            if role == "rhs":
                lhs = par["lhs"]
                if lhs.get("k") == "Path" and lhs["res"].get("k") == "Local" and lhs["res"]["name"] == "_":
                    return Use("discarded", par, "assignment to `_`")
                return Use("stored", par)
            return Use("operand", par)
        if pk == "AddrOf":
            cur, ps = par, list(up)
            continue
        if pk in ("Struct", "Tup", "Array", "Repeat"):
            return Use("stored", par)
        if pk in ("Binary", "Unary", "AssignOp", "Index", "Field", "Cast"):
            return Use("operand", par)
        if pk == "FormatArgs":
            return Use("operand", par, "format argument")
        return Use("unknown", par, role)


def _let_pattern(pat, stmt, has_else=False):
    k = pat.get("k")
    if k == "Wild":
        return Use("discarded", stmt, "`let _ = …`")
    if k == "Binding":
        if pat["name"].startswith("_") and pat["name"] != "_":
            # `let _x = …` keeps the value alive but nobody can read a failure out of it by accident;
            # still a binding: uses are counted by the caller
            pass
        return Use("bound", stmt, pat["name"], cont=pat["lid"])
    return Use("matched", stmt, "destructuring let" + (" … else" if has_else else ""))


def local_uses(body_value, lid):
    """All Path nodes (with parents) that read local `lid` inside the body."""
    out = []
    for n, ps in walk(body_value):
        if n.get("k") == "Path" and n["res"].get("k") == "Local" and n["res"].get("lid") == lid:
            out.append((n, ps))
    return out


def final_uses(node, parents, body_value, depth=0, fallible=True):
    """Follow a fallible value to its terminal consumers.

    Returns a list of Use objects whose kind is terminal:
      ok kinds:   fn_return, closure_return, propagated, checked, argument, stored, operand, matched,
                  condition, break_value, receiver, used_block_value
      bad kinds:  discarded, discard_method, unused_binding
      unknown
    pass_through methods and bindings are followed."""
    u = consumer(node, parents)
    if depth > 12:
        return [u]
    if u.kind == "pass_through":
        n2, up = u.cont
        return final_uses(n2, up, body_value, depth + 1)
    if u.kind == "bound":
        uses = local_uses(body_value, u.cont)
        if not uses:
            return [Use("unused_binding", u.node, "binding `%s` is never read" % u.detail)]
        out = []
        for n2, ps2 in uses:
            out += final_uses(n2, ps2, body_value, depth + 1)
        return out
    return [u]


def success_value_uses(node, parents, body_value):
    """For a fallible expression that is propagated with `?` or checked with expect/unwrap:
    how is the *success value* consumed afterwards? Returns list of Use (after following
    bindings)."""
    out = []
    for u in final_uses(node, parents, body_value):
        if u.kind in ("propagated", "checked"):
            n2, up = u.cont
            out += final_uses(n2, up, body_value)
        else:
            out.append(u)
    return out
