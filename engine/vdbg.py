import sys
from . import facts as F
from .vm_scheme import run_fn
from .symdbg import show_eff, fmt_out
fx = F.Facts(F.extract())
ex, paths = run_fn(fx, sys.argv[1])
print(len(paths), "paths")
for i, p in enumerate(paths):
    okp = p["out"][0] == "val" and p["out"][1][0] == "ok"
    if len(sys.argv) > 2 and sys.argv[2] == "ok" and not okp: continue
    if len(sys.argv) > 2 and sys.argv[2] == "outs":
        print("PATH %d -> %s" % (i, fmt_out(p["out"])[:150])); continue
    print("PATH %d -> %s" % (i, fmt_out(p["out"])))
    show_eff(p["eff"])
print("unmodelled:", ex.unmodelled)
