"""Client "VM ops": every eval_* / dispatch_* handler executed symbolically down to std primitives
on the State's fields; a few component operations are tracked by role."""
from . import anchors as A
from .symex import Executor, Client, State, lit, app, UNIT

I = "bytecode::interpreter::"
S = "bytecode::state::"
H = "bytecode::heap::"


class VMClient(Client):
    name = "vm"
    inline_depth = 8

    def __init__(self, track_builtins=True):
        self.track_builtins = track_builtins

    def tracked(self, ex, path, node, recv, args, st):
        if path == S + "InstructionPointer::bump":
            st.fields[(recv, "0")] = ("sym", next(ex.counter), "ip_after_bump")
            return {"kind": "ip_bump", "args": (recv,), "result": "unit"}
        if path == I + "dispatch_method" and I + "dispatch_method" not in ex.stack and ex.stack and ex.stack[0] != I + "dispatch_method":
            return {"kind": "dispatch", "args": tuple(args), "result": "result", "hint": "dispatch_method"}
        if self.track_builtins and path in (I + "dispatch_null_method", I + "dispatch_integer_method", I + "dispatch_boolean_method", I + "dispatch_array_method"):
            return {"kind": "builtin", "args": (lit(path.rsplit("::", 1)[-1]),) + tuple(args), "result": "result", "hint": "builtin"}
        if path == H + "Heap::allocate":
            return {"kind": "alloc", "args": (recv, args[0]), "result": "sym", "hint": "heap_index"}
        if path == H + "Pointer::evaluate_as_string":
            return {"kind": "render", "args": (recv,), "result": "result", "hint": "render"}
        if path == I + "dispatch_method" and ex.stack.count(I + "dispatch_method") >= 1:
            return {"kind": "redispatch", "args": tuple(args), "result": "result", "hint": "dispatch_method"}
        return None


def run_fn(fx, path, args=None, client=None):
    b = fx.body(path)
    if b is None:
        return None, None
    ex = Executor(fx, client or VMClient())
    if args is None:
        args = [("var", p.get("name", "p%d" % i)) for i, p in enumerate(b["params"])]
    res = ex.run_body(b, args, State())
    return ex, [{"eff": s.eff, "out": o} for s, o in res]
