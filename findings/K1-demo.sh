#!/bin/bash
# K1 (C08): `fml compile x > out.bc` truncated the file before the fix (exit 0).
# usage: K1-demo.sh <path to fml binary>   — prints SAME when file and stdout outputs agree.
F="$1"; D=$(mktemp -d); cd "$D"
python3 -c "open('p.fml','w').write('print(\"a\n' + 'b'*5000 + '\")')"
"$F" parse p.fml --format json -o p.json && "$F" compile p.json -o file.bc && "$F" compile p.json > pipe.bc
ls -l file.bc pipe.bc; cmp file.bc pipe.bc && echo SAME; rm -rf "$D"
