#!/bin/bash
# K7 (C06): a 140-term sum runs with `fml run` but `fml compile` refuses its JSON/LISP/YAML AST
# ("recursion limit exceeded"). usage: K7-demo.sh <path to fml binary>
F="$1"; D=$(mktemp -d); cd "$D"
python3 -c "print('print(\"~\\\\n\", ' + ' + '.join(['1']*140) + ')')" > p.fml
echo "run:"; "$F" run p.fml
for fmt in json lisp yaml; do
  "$F" parse p.fml --format $fmt -o p.$fmt && "$F" compile p.$fmt -o p.$fmt.bc 2>&1 | grep -o "recursion limit exceeded" | head -1 | sed "s/^/$fmt: /"
done
rm -rf "$D"
