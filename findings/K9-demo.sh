#!/bin/bash
# K9 (C08): a write error hit while the buffered tail of the output is flushed was swallowed
# (BufWriter / stdout dropped without flush): `fml compile x -o /dev/full` exited 0 before the fix.
# usage: K9-demo.sh <path to fml binary>   — prints REPORTED when every failing sink makes the command fail.
F="$1"; D=$(mktemp -d); cd "$D"
echo 'print("hello ~\n", 1 + 2);' > p.fml
"$F" parse p.fml --format json -o p.json || exit 2
ok=1
"$F" compile p.json -o /dev/full 2>/dev/null && { echo "compile -o /dev/full: exit 0 although nothing was written"; ok=0; }
"$F" compile p.json > /dev/full 2>/dev/null && { echo "compile > /dev/full: exit 0 although nothing was written"; ok=0; }
"$F" parse p.fml --format json -o /dev/full 2>/dev/null && { echo "parse -o /dev/full: exit 0 although nothing was written"; ok=0; }
[ $ok = 1 ] && echo REPORTED; rm -rf "$D"; [ $ok = 1 ]
