//! Positive examples for the zero-expected census rules of /verif. Analysed by the same
//! dumper on every run: a rule that does not fire here is blind and fails the check.
#![allow(dead_code, unused_variables, unused_must_use, unused_unsafe)]
use std::collections::{HashMap, HashSet};
use std::io::Write;

// R8.count: count of Write::write dropped
pub fn canary_write_count_dropped<W: Write>(w: &mut W, buf: &[u8]) -> std::io::Result<()> {
    w.write(buf)?;
    Ok(())
}
// R8.count (negative twin): complete write
pub fn canary_write_all<W: Write>(w: &mut W, buf: &[u8]) -> std::io::Result<()> {
    w.write_all(buf)?;
    Ok(())
}
fn fallible() -> Result<u32, String> { Err("x".to_string()) }
// R8/R10.propagate: discard idioms
pub fn canary_result_semi() { fallible(); }
pub fn canary_result_let_underscore() { let _ = fallible(); }
pub fn canary_result_ok() -> Option<u32> { fallible().ok() }
pub fn canary_result_unwrap_or() -> u32 { fallible().unwrap_or(0) }
pub fn canary_result_is_err() -> bool { if fallible().is_err() { return true; } false }
pub fn canary_result_err_arm_swallow() -> Result<u32, String> {
    match fallible() { Ok(v) => Ok(v), Err(_) => Ok(0) }
}
pub fn canary_result_if_let_ok() { if let Ok(v) = fallible() { let _x = v; } }
// negative twins
pub fn canary_result_propagated() -> Result<u32, String> { let v = fallible()?; Ok(v) }
pub fn canary_result_expect() -> u32 { fallible().expect("boom") }
// R11.hash
pub fn canary_hash_iter(m: &HashMap<String, u32>) -> Vec<u32> { m.values().cloned().collect() }
pub fn canary_hash_for(s: &HashSet<u32>) -> u32 { let mut t = 0; for x in s { t += *x; } t }
pub fn canary_hash_keyed(m: &HashMap<String, u32>) -> Option<&u32> { m.get("a") }
// R11.env
pub fn canary_clock() -> u128 {
    std::time::SystemTime::now().duration_since(std::time::SystemTime::UNIX_EPOCH).unwrap().as_nanos()
}
pub fn canary_clock_elapsed() -> u128 { std::time::UNIX_EPOCH.elapsed().map(|d| d.as_nanos()).unwrap_or(0) }
pub fn canary_env() -> Option<String> { std::env::var("HOME").ok() }
pub fn canary_ptr_to_int(x: &u32) -> usize { x as *const u32 as usize }
// R11.cfg / R9.nocfg
pub fn canary_cfg() -> u32 { if cfg!(debug_assertions) { 1 } else { 2 } }
pub fn canary_debug_assert(x: u32) { debug_assert!(x > 0); }
// R9/R11.profile
pub fn canary_plain_add(a: &i32, b: &i32) -> i32 { a + b }
pub fn canary_plain_mul(a: i32, b: i32) -> i32 { a * b }
pub fn canary_neg(a: i32) -> i32 { -a }
pub fn canary_wrapping(a: i32, b: i32) -> i32 { a.wrapping_add(b) }
// R10.noexit0
pub fn canary_exit() { std::process::exit(0) }
pub fn canary_println() { println!("note"); }
pub fn canary_eprintln() { eprintln!("note"); }
pub fn canary_catch() { let _r = std::panic::catch_unwind(|| 1); }
// R10.nounsafe
pub fn canary_unsafe(p: *const u32) -> u32 { unsafe { *p } }
// R3.narrow
pub fn canary_chunked_decode<R: std::io::BufRead>(r: &mut R) -> std::io::Result<String> {
    let mut s = String::new();
    loop {
        let n = { let b = r.fill_buf()?; if b.is_empty() { break } s.push_str(&String::from_utf8_lossy(b)); b.len() };
        r.consume(n);
    }
    Ok(s)
}
pub fn canary_whole_decode<R: std::io::Read>(r: &mut R) -> std::io::Result<String> {
    let mut v = Vec::new();
    r.read_to_end(&mut v)?;
    Ok(String::from_utf8_lossy(&v).into_owned())
}

pub fn canary_partial_resumed<W: Write>(w: &mut W, buf: &[u8]) -> std::io::Result<()> {
    let n = w.write(buf)?;
    w.write_all(&buf[n..])?;
    Ok(())
}
pub fn canary_partial_misresumed<W: Write>(w: &mut W, buf: &[u8]) -> std::io::Result<()> {
    let n = w.write(buf)?;
    w.write_all(&buf[n + 1..])?;
    Ok(())
}
pub fn canary_partial_unresumed<W: Write>(w: &mut W, buf: &[u8]) -> std::io::Result<()> {
    let n = w.write(buf)?;
    if n == 0 { return Err(std::io::Error::new(std::io::ErrorKind::WriteZero, "zero")); }
    Ok(())
}
pub fn canary_vectored_resumed<W: Write>(w: &mut W, a: &[u8], b: &[u8]) -> std::io::Result<()> {
    let n = w.write_vectored(&[std::io::IoSlice::new(a), std::io::IoSlice::new(b)])?;
    if n <= a.len() {
        w.write_all(&a[n..])?;
        w.write_all(b)?;
    } else {
        w.write_all(&b[n - a.len()..])?;
    }
    Ok(())
}
pub fn canary_vectored_misresumed<W: Write>(w: &mut W, a: &[u8], b: &[u8]) -> std::io::Result<()> {
    let n = w.write_vectored(&[std::io::IoSlice::new(a), std::io::IoSlice::new(b)])?;
    if n <= a.len() {
        w.write_all(&a[n..])?;
        w.write_all(b)?;
    } else {
        w.write_all(&b[n.min(b.len())..])?;
    }
    Ok(())
}
pub fn canary_resume_loop<W: Write>(w: &mut W, mut buf: &[u8]) -> std::io::Result<()> {
    while !buf.is_empty() {
        match w.write(buf) {
            Ok(0) => return Err(std::io::Error::new(std::io::ErrorKind::WriteZero, "zero")),
            Ok(n) => buf = &buf[n..],
            Err(ref e) if e.kind() == std::io::ErrorKind::Interrupted => {}
            Err(e) => return Err(e),
        }
    }
    Ok(())
}
pub fn canary_bad_loop<W: Write>(w: &mut W, mut buf: &[u8]) -> std::io::Result<()> {
    while !buf.is_empty() {
        let n = w.write(buf)?;
        buf = &buf[n.max(1) - 1..];
        if n > 3 { break }
    }
    Ok(())
}

pub fn canary_narrow(v: usize) -> u16 { v as u16 }
pub fn canary_narrow_guarded(v: usize) -> u16 { assert!(v <= 65_535usize); v as u16 }

fn main() {}
