#!/usr/bin/env python3-vt
"""Confirm a sub-agent's seeded change and record it under /verif/seeded/<id>/.

usage: selftest/confirm_seed.py <seed id> <property> <dir with patch.diff + demo.sh> [--needs "..."]
Steps (all in scratch directories outside /repo and /verif, removed afterwards):
  1. build the ORIGINAL tree (copy of /repo HEAD)          -> fml.orig
  2. copy of /repo HEAD + `git apply patch.diff`, build     -> fml.changed
  3. cargo test on the changed copy                         -> must be 259 passed, 0 failed
  4. demo.sh fml.orig -> exit 0 ; demo.sh fml.changed -> exit != 0
  5. run all 17 quick checks against the changed copy       -> which fire
"""
import argparse, json, os, re, shutil, subprocess, sys, tempfile, time

VERIF = os.path.dirname(os.path.dirname(os.path.abspath(__file__)))
REPO = "/repo"
WORK = os.environ.get("SEEDCONFIRM_WORK", "/tmp/seedconfirm")


def sh(cmd, cwd=None, env=None, timeout=1800):
    r = subprocess.run(cmd, cwd=cwd, env=env, shell=isinstance(cmd, str), stdout=subprocess.PIPE, stderr=subprocess.STDOUT, text=True, timeout=timeout)
    return r.returncode, r.stdout


def export_head(dst):
    os.makedirs(dst, exist_ok=True)
    rc, out = sh("git -C %s archive HEAD | tar -x -C %s" % (REPO, dst))
    assert rc == 0, out


def main():
    ap = argparse.ArgumentParser()
    ap.add_argument("seed_id")
    ap.add_argument("prop")
    ap.add_argument("src")
    ap.add_argument("--needs", default="")
    ap.add_argument("--benign", action="store_true", help="a behaviour-preserving refactoring: demo must pass on both binaries; any check that fires is a false alarm")
    a = ap.parse_args()
    os.makedirs(WORK, exist_ok=True)
    head = subprocess.check_output(["git", "-C", REPO, "rev-parse", "--short", "HEAD"], text=True).strip()
    env = dict(os.environ, CARGO_NET_OFFLINE="true")
    # 1. original binary (cached per HEAD)
    orig_bin = os.path.join(WORK, "fml.orig.%s" % head)
    if not os.path.exists(orig_bin):
        d = tempfile.mkdtemp(prefix="orig-", dir=WORK)
        export_head(d)
        rc, out = sh("cargo build --offline", cwd=d, env=dict(env, CARGO_TARGET_DIR=os.path.join(WORK, "target")))
        assert rc == 0, out[-2000:]
        shutil.copy2(os.path.join(WORK, "target", "debug", "fml"), orig_bin)
        shutil.rmtree(d)
    # 2. changed copy
    d = tempfile.mkdtemp(prefix="chg-", dir=WORK)
    result = {"seed": a.seed_id, "property": a.prop, "base_commit": head}
    try:
        export_head(d)
        patch = os.path.join(a.src, "patch.diff")
        rc, out = sh(["git", "apply", "--whitespace=nowarn", "--exclude=_seed/*", patch], cwd=d)
        if rc != 0:
            rc, out = sh("patch -p1 < %s" % patch, cwd=d)
        result["patch_applies"] = rc == 0
        assert rc == 0, "patch does not apply: " + out[-800:]
        rc, out = sh("cargo build --offline", cwd=d, env=dict(env, CARGO_TARGET_DIR=os.path.join(WORK, "target")))
        result["builds"] = rc == 0
        assert rc == 0, out[-2000:]
        chg_bin = os.path.join(d, "fml.changed")
        shutil.copy2(os.path.join(WORK, "target", "debug", "fml"), chg_bin)
        # 3. tests
        rc, out = sh("cargo test --workspace --no-fail-fast --offline", cwd=d, env=dict(env, CARGO_TARGET_DIR=os.path.join(WORK, "target")))
        m = re.search(r"test result: (\w+)\. (\d+) passed; (\d+) failed", out)
        result["tests"] = m.group(0) if m else out[-300:]
        tests_ok = bool(m) and m.group(2) == "259" and m.group(3) == "0"
        # 4. demo
        demo_dir = tempfile.mkdtemp(prefix="demo-", dir=WORK)
        for f in os.listdir(a.src):
            p = os.path.join(a.src, f)
            if os.path.isfile(p) and not f.startswith("fml.") and os.path.getsize(p) < 2_000_000:
                shutil.copy2(p, os.path.join(demo_dir, f))
            elif os.path.isdir(p) and not f.startswith(("target", ".")):
                shutil.copytree(p, os.path.join(demo_dir, f), dirs_exist_ok=True)
        os.chmod(os.path.join(demo_dir, "demo.sh"), 0o755)
        rc_o, out_o = sh(["bash", "demo.sh", orig_bin], cwd=demo_dir, timeout=300)
        rc_c, out_c = sh(["bash", "demo.sh", chg_bin], cwd=demo_dir, timeout=300)
        result["demo_on_original"] = rc_o
        result["demo_on_changed"] = rc_c
        result["demo_changed_tail"] = out_c[-400:]
        shutil.rmtree(demo_dir, ignore_errors=True)
        # 5. checks
        fired = {}
        ev = os.path.join(d, "_evidence")
        for i in range(1, 18):
            pid = "C%02d" % i
            rc, out = sh([os.path.join(VERIF, "bin", "check"), pid], cwd=VERIF, env=dict(os.environ, FML_REPO=d, FML_SCRATCH="1", FML_EVIDENCE_DIR=ev))
            rules = sorted({re.search(r"rule=(\S+)", l).group(1) for l in out.splitlines() if l.strip().startswith("rule=")})
            if rc == 1:
                fired[pid] = rules
            elif rc != 0:
                fired[pid] = ["CHECK-ERROR rc=%d: %s" % (rc, out[-300:])]
        result["checks_fired"] = fired
        if a.benign:
            result["confirmed"] = bool(result["builds"] and tests_ok and rc_o == 0 and rc_c == 0)
            result["false_alarms"] = fired
        else:
            result["confirmed"] = bool(result["builds"] and tests_ok and rc_o == 0 and rc_c != 0)
        result["caught_by_own_property"] = a.prop in fired
        result["caught_by_any"] = bool(fired)
    except AssertionError as e:
        result["error"] = str(e)[:1500]
        result["confirmed"] = False
    finally:
        shutil.rmtree(d, ignore_errors=True)
    print(json.dumps(result, indent=1)[:3000])
    if result.get("confirmed"):
        dst = os.path.join(VERIF, "selftest", "refactorings", a.seed_id) if a.benign else os.path.join(VERIF, "seeded", a.seed_id)
        os.makedirs(dst, exist_ok=True)
        for f in os.listdir(a.src):
            p = os.path.join(a.src, f)
            if os.path.isfile(p) and not f.startswith("fml.") and os.path.getsize(p) < 1_000_000:
                shutil.copy2(p, os.path.join(dst, f))
            elif os.path.isdir(p) and not f.startswith(("target", ".")):
                shutil.copytree(p, os.path.join(dst, f), dirs_exist_ok=True)
        notes = open(os.path.join(a.src, "notes.md")).read() if os.path.exists(os.path.join(a.src, "notes.md")) else ""
        meta = {
            "id": a.seed_id, ("targets_property_code" if a.benign else "breaks_property"): a.prop, "base_commit": head,
            "kind": "behaviour-preserving refactoring (all checks must stay silent)" if a.benign else "property-breaking change",
            "needs_to_manifest": a.needs or notes[:600],
            "what_was_run": [
                "copy of /repo HEAD (%s) + git apply patch.diff; cargo build --offline: ok" % head,
                "cargo test --workspace --no-fail-fast --offline on the changed copy: %s" % result["tests"],
                "demo.sh <original binary>: exit %s; demo.sh <changed binary>: exit %s" % (result["demo_on_original"], result["demo_on_changed"]),
                "bin/check C01..C17 (quick) with FML_REPO=<changed copy>",
            ],
            "checks_fired_at_confirmation": result["checks_fired"],
            "origin": "written by an independent sub-agent that saw only the property text and its own worktree",
        }
        json.dump(meta, open(os.path.join(dst, "meta.json"), "w"), indent=1)
    return 0 if result.get("confirmed") else 1


if __name__ == "__main__":
    sys.exit(main())
