"""Seeded edits (DESIGN Appendix F). Each compiles; "S" ones survive all 259 tests.
edits: (file, old, new) applied once each to a scratch copy."""

C = "src/bytecode/compiler.rs"
I = "src/bytecode/interpreter.rs"
H = "src/bytecode/heap.rs"
P = "src/bytecode/program.rs"
S = "src/bytecode/serializable.rs"
ST = "src/bytecode/state.rs"
B = "src/bytecode/bytecode.rs"
M = "src/main.rs"
PA = "src/parser/mod.rs"
G = "src/fml.lalrpop"

MUTANTS = [
    # ---------------------------------------------------------------- C02 / C01
    dict(id="M01", props=["C02", "C01"], what="Print arm loses its Drop", edits=[(C,
        "                active_buffer.emit(OpCode::Print { format, arguments });\n                active_buffer.emit_unless(OpCode::Drop, keep_result);",
        "                active_buffer.emit(OpCode::Print { format, arguments });")]),
    dict(id="M41", props=["C02", "C01"], what="AssignField arm loses its Drop", edits=[(C,
        "                active_buffer.emit(OpCode::SetField { name: index });\n                active_buffer.emit_unless(OpCode::Drop, keep_result);",
        "                active_buffer.emit(OpCode::SetField { name: index });")]),
    dict(id="M40", props=["C02", "C01"], what="Conditional compiles the alternative with keep=true", edits=[(C,
        "(**alternative).compile_into(program, active_buffer, global_environment, current_frame, keep_result)?;",
        "(**alternative).compile_into(program, active_buffer, global_environment, current_frame, true)?;")]),
    dict(id="M03", props=["C02"], what="create_group stops incrementing", edits=[(C,
        "        let group = self.groups;\n        self.groups = self.groups + 1;\n",
        "        let group = self.groups;\n")]),
    dict(id="M28", props=["C02"], what="method frame locals saturating_sub(expected+1)", edits=[(C,
        "locals: Size::from_usize(locals_in_frame - expected_arguments),",
        "locals: Size::from_usize(locals_in_frame.saturating_sub(expected_arguments + 1)),")]),
    dict(id="M70", props=["C02"], what="entry frame locals = 0", edits=[(C,
        "locals: Size::from_usize(global_environment.count_locals()),",
        "locals: Size::from_usize(0),")]),
    # ---------------------------------------------------------------- C03 / C04
    dict(id="M09", props=["C04", "C03"], what="string length written in chars", edits=[(S,
        "    write_usize_as_u32(writer, bytes.len())?;", "    write_usize_as_u32(writer, string.chars().count())?;")]),
    dict(id="MA4", props=["C04"], what="trailing byte after entry for >3 globals", edits=[(P,
        "        self.entry.serialize(sink)\n    }",
        "        self.entry.serialize(sink)?;\n        if self.globals.iter().count() > 3 { serializable::write_u8(sink, 0)?; }\n        Ok(())\n    }")]),
    # ---------------------------------------------------------------- C05
    dict(id="M23", props=["C05"], what="globals initialised to 0", edits=[(ST,
        "GlobalFrame::from(globals, Pointer::Null)?", "GlobalFrame::from(globals, Pointer::Integer(0))?")]),
    dict(id="M24", props=["C05"], what="integer 0 falsy in Branch", edits=[(H,
        "            Pointer::Integer(_) => true,\n            Pointer::Boolean(b) => *b,",
        "            Pointer::Integer(i) => *i != 0,\n            Pointer::Boolean(b) => *b,")]),
    dict(id="M68", props=["C05", "C12"], what="call locals initialised to 0", edits=[(I,
        "    let argument_pointers = state.operand_stack.pop_sequence(arguments.to_usize())?;\n    let local_pointers = locals.make_vector(Pointer::Null);",
        "    let argument_pointers = state.operand_stack.pop_sequence(arguments.to_usize())?;\n    let local_pointers = locals.make_vector(Pointer::Integer(0));")]),
    dict(id="M99", props=["C05", "C10"], what="missing global reads null", edits=[(I,
        "    let pointer = *state.frame_stack.globals.get(name)?;",
        "    let pointer = state.frame_stack.globals.get(name).map(|p| *p).unwrap_or(Pointer::Null);")]),
    # ---------------------------------------------------------------- C06
    dict(id="M18", props=["C06"], what=".yaml maps to JSON", edits=[(M,
        '            "yaml" => Some(ASTSerializer::YAML),', '            "yaml" => Some(ASTSerializer::JSON),')]),
    dict(id="M60", props=["C06"], what="LISP read with serde_json", edits=[(M,
        "            ASTSerializer::LISP  => Ok(serde_lexpr::from_str(source)?),",
        "            ASTSerializer::LISP  => Ok(serde_json::from_str(source)?),")]),
    dict(id="M61", props=["C06"], what="serde(default, skip_serializing) on Print.format", edits=[(PA,
        "    Print { format: String, arguments: Vec<Box<AST>> },",
        "    Print { #[serde(default, skip_serializing)] format: String, arguments: Vec<Box<AST>> },")]),
    # ---------------------------------------------------------------- C07
    dict(id="M19", props=["C07"], what="% moved to the additive level", edits=[
        (G, "    MINUS => Operator::Subtraction,\n", "    MINUS => Operator::Subtraction,\n    MODULE => Operator::Module,\n"),
        (G, "    DIVIDE => Operator::Division,\n    MODULE => Operator::Module,\n", "    DIVIDE => Operator::Division,\n")]),
    # ---------------------------------------------------------------- C09
    dict(id="M46", props=["C09"], what="% -> rem_euclid", edits=[(I,
        '("%",  Pointer::Integer(argument)) => Pointer::from(receiver %  argument),',
        '("%",  Pointer::Integer(argument)) => Pointer::from(receiver.rem_euclid(*argument)),')]),
    dict(id="M47", props=["C09"], what="/ -> wrapping_div", edits=[(I,
        '("/",  Pointer::Integer(argument)) => Pointer::from(receiver /  argument),',
        '("/",  Pointer::Integer(argument)) => Pointer::from(receiver.wrapping_div(*argument)),')]),
    dict(id="M48", props=["C09"], what="boolean == other kind -> true", edits=[(I,
        '        ("!=", Pointer::Boolean(argument)) => Pointer::from(*receiver != *argument),\n        ("==", _) => Pointer::from(false),',
        '        ("!=", Pointer::Boolean(argument)) => Pointer::from(*receiver != *argument),\n        ("==", _) => Pointer::from(true),')]),
    dict(id="MK2", props=["C09", "C11"], what="K2 reintroduced: plain + on i32", edits=[(I,
        '("+",  Pointer::Integer(argument)) => Pointer::from(receiver.wrapping_add(*argument)),',
        '("+",  Pointer::Integer(argument)) => Pointer::from(receiver +  argument),')]),
    # ---------------------------------------------------------------- C10
    dict(id="M21", props=["C10"], what="run replaces expect by .ok()", edits=[(M,
        "        evaluate_with_memory_config(&program, self.heap_size, self.heap_log.clone())\n            .expect(\"Interpreter error\")\n    }\n\n    pub fn selected_input(&self) -> Result<NamedSource> {\n        NamedSource::from(self.input.as_ref())\n    }\n}\n\nimpl BytecodeInterpreterAction",
        "        evaluate_with_memory_config(&program, self.heap_size, self.heap_log.clone())\n            .ok();\n    }\n\n    pub fn selected_input(&self) -> Result<NamedSource> {\n        NamedSource::from(self.input.as_ref())\n    }\n}\n\nimpl BytecodeInterpreterAction")]),
    dict(id="M22", props=["C10"], what="loop breaks on is_err()", edits=[(I,
        "        eval_opcode(program, state, output, opcode)?;\n    }\n    Ok(())\n}\n\n#[allow(dead_code)]\npub fn step_with",
        "        if eval_opcode(program, state, output, opcode).is_err() { break; }\n    }\n    Ok(())\n}\n\n#[allow(dead_code)]\npub fn step_with")]),
    dict(id="M65", props=["C10"], what="Output::write_str maps Err to Ok", edits=[(ST,
        "            Err(_) => Err(std::fmt::Error),", "            Err(_) => Ok(()),")]),
    dict(id="M84", props=["C10", "C05"], what="unknown function evaluates to null", edits=[(I,
        "    let function_index = state.frame_stack.functions.get(name)?;\n    let function = program.constant_pool.get(function_index)?;\n\n    let parameters = function.get_method_parameters()?;                                      // FIXME",
        "    let function_index = match state.frame_stack.functions.get(name) {\n        Ok(index) => *index,\n        Err(_) => {\n            state.operand_stack.pop_sequence(arguments.to_usize())?;\n            state.operand_stack.push(Pointer::Null);\n            state.instruction_pointer.bump(program);\n            return Ok(());\n        }\n    };\n    let function = program.constant_pool.get(&function_index)?;\n\n    let parameters = function.get_method_parameters()?;                                      // FIXME")]),
    dict(id="M96", props=["C10"], what="missing field reads null", edits=[(H,
        "        self.fields.get(name)\n            .with_context(|| format!(\"There is no field named `{}` in object `{}`\", name, self))\n    }\n    pub fn set_field",
        "        Ok(self.fields.get(name).unwrap_or(&Pointer::Null))\n    }\n    pub fn set_field")]),
    dict(id="M97", props=["C10"], what="negative array size unchecked", edits=[(I,
        "    bail_if!(n < 0, \"Negative value `{}` cannot be used to specify the size of an array.\", n);\n", "")]),
    dict(id="MK5", props=["C10", "C15"], what="K5: print writes before its checks", edits=[]),
    # ---------------------------------------------------------------- C11
    dict(id="MA3", props=["C11"], what="wall clock influences rendering", edits=[(H,
        "            Pointer::Reference(index) => heap.dereference(index)?.evaluate_as_string(heap),\n        }\n    }\n}\n\nimpl Into<bool>",
        "            Pointer::Reference(index) => {\n                let t = SystemTime::now().duration_since(SystemTime::UNIX_EPOCH).unwrap().as_nanos();\n                if t % 1000003 == 0 { return Ok(\"?\".to_owned()) }\n                heap.dereference(index)?.evaluate_as_string(heap)\n            },\n        }\n    }\n}\n\nimpl Into<bool>")]),
    dict(id="M10", props=["C11"], what="fields collected through a HashMap before printing", edits=[(H,
        "        let mut sorted_fields: Vec<(&String, &Pointer)> = self.fields.iter().collect();\n        sorted_fields.sort_by_key(|(name, _)| *name);",
        "        let unsorted: std::collections::HashMap<&String, &Pointer> = self.fields.iter().collect();\n        let sorted_fields: Vec<(&String, &Pointer)> = unsorted.into_iter().collect();")]),
    # ---------------------------------------------------------------- C12
    dict(id="M13", props=["C12"], what="scope lookup outermost-first", edits=[
        (C, "    fn register_local(&mut self, id: &str) -> LocalFrameIndex {\n        for scope in self.scopes.iter().rev() {",
            "    fn register_local(&mut self, id: &str) -> LocalFrameIndex {\n        for scope in self.scopes.iter() {"),
        (C, "    fn has_local(&self, id: &str) -> bool {\n        for scope in self.scopes.iter().rev() {",
            "    fn has_local(&self, id: &str) -> bool {\n        for scope in self.scopes.iter() {")]),
    dict(id="M50", props=["C12"], what="let uses lookup-or-bind in Local frames", edits=[(C,
        "                    Frame::Local(environment) => {\n                        let index = environment.register_new_local(name)\n                            .expect(&format!(\"Cannot register new variable {}\", &name))\n                            .clone();",
        "                    Frame::Local(environment) => {\n                        let index = environment.register_local(name)\n                            .clone();")]),
    dict(id="M51", props=["C12"], what="in_outermost_scope <=> len <= 2", edits=[(C,
        "        self.scopes.len() == 1", "        self.scopes.len() <= 2")]),
    dict(id="M35", props=["C12"], what="function body compiled in a clone of the global environment", edits=[(C,
        "                let mut child_environment = Environment::new();\n                for parameter in parameters.into_iter() { // TODO Environment::from\n                    child_environment.register_local(parameter.as_str());\n                }\n                let mut child_frame = &mut Frame::Local(child_environment);\n\n                (**body)",
        "                let mut child_environment = global_environment.clone();\n                for parameter in parameters.into_iter() { // TODO Environment::from\n                    child_environment.register_local(parameter.as_str());\n                }\n                let mut child_frame = &mut Frame::Local(child_environment);\n\n                (**body)")]),
    dict(id="M94", props=["C12"], what="top-level block let stored as a global", edits=[(C,
        "                    Frame::Top if !global_environment.in_outermost_scope() => {\n                        let index = global_environment.register_new_local(name)",
        "                    Frame::Top if !global_environment.in_outermost_scope() && false => {\n                        let index = global_environment.register_new_local(name)")]),
    # ---------------------------------------------------------------- C14
    dict(id="M14", props=["C14", "C16"], what="copy-on-SetLocal of referenced objects", edits=[(I,
        "    let pointer = *state.operand_stack.peek()?;\n    let frame = state.frame_stack.get_locals_mut()?;\n    frame.set(index, pointer)?;",
        "    let mut pointer = *state.operand_stack.peek()?;\n    if let Pointer::Reference(r) = pointer {\n        let copy = state.heap.dereference(&r)?.clone();\n        pointer = Pointer::from(state.heap.allocate(copy));\n    }\n    let frame = state.frame_stack.get_locals_mut()?;\n    frame.set(index, pointer)?;")]),
    dict(id="M32", props=["C14"], what="no delegation to the parent", edits=[(I,
        "        None =>\n            dispatch_method(program, state, parent_pointer, method_name, argument_pointers)\n    }",
        "        None => {\n            let _ = parent_pointer;\n            bail!(\"Call method error: no method `{}`\", method_name)\n        }\n    }")]),
    dict(id="M52", props=["C14"], what="user-method arity unchecked", edits=[(I,
        "    bail_if!(argument_pointers.len() != parameters.to_usize() - 1,\n             \"Method `{}` requires {} arguments, but {} were supplied\",\n             method_name, parameters, argument_pointers.len());\n", "")]),
    dict(id="MA0", props=["C10"], what="set_field creates a missing field", edits=[(H,
        "        self.fields.insert(name.to_owned(), pointer)\n            .with_context(|| format!(\"There is no field named `{}` in object `{}`\", name, self))",
        "        Ok(self.fields.insert(name.to_owned(), pointer).unwrap_or(Pointer::Null))")]),
    # ---------------------------------------------------------------- C15
    dict(id="M11", props=["C15"], what="field sort removed", edits=[(H,
        "        let mut sorted_fields: Vec<(&String, &Pointer)> = self.fields.iter().collect();\n        sorted_fields.sort_by_key(|(name, _)| *name);",
        "        let sorted_fields: Vec<(&String, &Pointer)> = self.fields.iter().collect();")]),
    dict(id="M30", props=["C15"], what="\\t decodes to a space", edits=[(I,
        "buffer.write_char('\\t')?;", "buffer.write_char(' ')?;")]),
    dict(id="M55", props=["C15"], what="surplus print arguments ignored", edits=[(I,
        "    bail_if!(!argument_pointers.is_empty(),\n             \"{} unused arguments for format `{}`\", argument_pointers.len(), format);\n", "")]),
    # ---------------------------------------------------------------- C16
    dict(id="M15", props=["C16"], what="log written before the size update", edits=[(H,
        "        self.size += object.size();\n        heap_log!(ALLOCATE -> self.log, self.size);",
        "        heap_log!(ALLOCATE -> self.log, self.size);\n        self.size += object.size();")]),
    dict(id="M16", props=["C16"], what="max_size honoured", edits=[(H,
        "        self.size += object.size();\n", "        self.size += object.size();\n        if self.max_size > 0 && self.size > self.max_size { panic!(\"out of memory\") }\n")]),
    dict(id="M57", props=["C16"], what="START record dropped", edits=[(H,
        "        heap_log!(START -> Some(&mut file));\n", "")]),
    dict(id="M37", props=["C16"], what="second, unlogged allocator used by eval_array", edits=[
        (H, "    pub fn dereference(&self, index: &HeapIndex)", "    pub fn allocate_quietly(&mut self, object: HeapObject) -> HeapIndex {\n        let index = HeapIndex::from(self.memory.len());\n        self.memory.push(object);\n        index\n    }\n    pub fn dereference(&self, index: &HeapIndex)"),
        (I, "    let heap_index = state.heap.allocate(array);", "    let heap_index = state.heap.allocate_quietly(array);")]),
    dict(id="MK4", props=["C16", "C11"], what="K4 reintroduced: plain * on heap size", edits=[(H,
        "size.saturating_mul(1024 * 1024)", "size * 1024 * 1024")]),
    # ---------------------------------------------------------------- C17
    dict(id="M17", props=["C17"], what="call slot omits its arity", edits=[(B,
        "                write!(f, \"call slot {} {}\", name, arguments),", "                write!(f, \"call slot {}\", name),"),
        (B, "            OpCode::CallMethod { name, arguments } =>\n                write!", "            OpCode::CallMethod { name, arguments: _ } =>\n                write!")]),
    dict(id="M58", props=["C17"], what="get slot / set slot swapped", edits=[
        (B, "write!(f, \"get slot {}\", name),", "write!(f, \"@@@ slot {}\", name),"),
        (B, "write!(f, \"set slot {}\", name),", "write!(f, \"get slot {}\", name),"),
        (B, "write!(f, \"@@@ slot {}\", name),", "write!(f, \"set slot {}\", name),")]),
    dict(id="M59", props=["C17"], what="listing omits the globals section", edits=[(P,
        "        writeln!(f, \"Globals:\")?;\n        write!(f, \"{}\", self.globals)?;\n", "")]),
    # ---------------------------------------------------------------- C08
    dict(id="MK1", props=["C08"], what="K1 reintroduced in write_u16", edits=[(S,
        "    let buf = value.to_le_bytes();\n    writer.write_all(&buf)?;//.expect(&format!(\"Problem writing u16",
        "    let buf = value.to_le_bytes();\n    writer.write(&buf)?;//.expect(&format!(\"Problem writing u16")]),
    dict(id="MC8b", props=["C08"], what="serialize result dropped in CompilerAction", edits=[(M,
        "        output_serializer.serialize(&program, &mut sink)\n            .expect(\"Cannot serialize program to output.\");",
        "        let _ = output_serializer.serialize(&program, &mut sink);")]),
    dict(id="MC8c", props=["C08"], what="NamedSink::write claims the whole buffer", edits=[(M,
        "        self.sink.write(buf)\n    }", "        self.sink.write(buf)?;\n        Ok(buf.len())\n    }")]),
]


MUTANTS += [
    dict(id="M04", props=["C13"], what="CallFunction arm iterates arguments reversed", edits=[(C,
        "                let index = program.constant_pool.register(ProgramObject::String(name.to_string()));\n                for argument in arguments.iter() {",
        "                let index = program.constant_pool.register(ProgramObject::String(name.to_string()));\n                for argument in arguments.iter().rev() {")]),
    dict(id="M80", props=["C13"], what="AssignField compiles value before object", edits=[(C,
        "                object.deref().compile_into(program, active_buffer, global_environment, current_frame, true)?;\n                value.deref().compile_into(program, active_buffer, global_environment, current_frame, true)?;\n                let index = program.constant_pool.register(ProgramObject::from_str(name));\n                active_buffer.emit(OpCode::SetField",
        "                value.deref().compile_into(program, active_buffer, global_environment, current_frame, true)?;\n                object.deref().compile_into(program, active_buffer, global_environment, current_frame, true)?;\n                let index = program.constant_pool.register(ProgramObject::from_str(name));\n                active_buffer.emit(OpCode::SetField")]),
    dict(id="MA1", props=["C13", "C02"], what="Loop arm omits the initial Jump to the condition", edits=[(C,
        "                active_buffer.emit(OpCode::Jump { label: condition_label_index });\n", "")]),
    dict(id="M02", props=["C02", "C13"], what="Loop arm compiles the body with keep_result", edits=[(C,
        "(**body).compile_into(program, active_buffer, global_environment, current_frame, false)?;",
        "(**body).compile_into(program, active_buffer, global_environment, current_frame, keep_result)?;")]),
    dict(id="M36", props=["C02"], what="Block keeps every child when keep_result", edits=[(C,
        "current_frame, last && keep_result)?;", "current_frame, keep_result)?;")]),
    dict(id="M91", props=["C13"], what="Array arm treats CallFunction initialisers as simple", edits=[(C,
        "AST::AccessVariable { name:_ } => {",
        "AST::AccessVariable { name:_ } | AST::CallFunction { name:_, arguments:_ } => {")]),
    dict(id="MK8", props=["C13"], what="K8 reintroduced: AccessField initialisers simple", edits=[(C,
        "AST::AccessVariable { name:_ } => {",
        "AST::AccessVariable { name:_ } | AST::AccessField { object:_, field:_ } => {")]),
    dict(id="M13a", props=["C13"], what="array counter starts at 1", edits=[(C,
        "i_id.clone(), AST::integer(0));", "i_id.clone(), AST::integer(1));")]),
    dict(id="M13b", props=["C13"], what="conditional branches swapped (alt on truthy edge)", edits=[
        (C, "(**alternative).compile_into(program, active_buffer, global_environment, current_frame, keep_result)?;\n                active_buffer.emit(OpCode::Jump { label: end_label_index } );",
            "(**consequent).compile_into(program, active_buffer, global_environment, current_frame, keep_result)?;\n                active_buffer.emit(OpCode::Jump { label: end_label_index } );"),
        (C, "                //program.labels.set(consequent_label, program.code.current_address())?;\n                (**consequent).compile_into(",
            "                //program.labels.set(consequent_label, program.code.current_address())?;\n                (**alternative).compile_into(")]),
    dict(id="M26", props=["C13"], what="Object arm compiles extends after the members", edits=[
        (C, "                (**extends).compile_into(program, active_buffer, global_environment, current_frame, true)?;\n\n                let slots: Result<Vec<ConstantPoolIndex>>", "                let slots: Result<Vec<ConstantPoolIndex>>"),
        (C, "                }).collect();\n\n                let class = ProgramObject::Class(slots?);", "                }).collect();\n                (**extends).compile_into(program, active_buffer, global_environment, current_frame, true)?;\n\n                let class = ProgramObject::Class(slots?);")]),
]

MUTANTS += [
    dict(id="M05", props=["C05"], what="eval_set_field pops host before value", edits=[(I,
        "    let value_pointer = state.operand_stack.pop()?;\n    let object_pointer = state.operand_stack.pop()?;",
        "    let object_pointer = state.operand_stack.pop()?;\n    let value_pointer = state.operand_stack.pop()?;")]),
    dict(id="M44", props=["C05"], what="eval_set_global pops instead of peeking", edits=[(I,
        "    let name = program_object.as_str()?.to_owned();\n    let pointer = *state.operand_stack.peek()?;",
        "    let name = program_object.as_str()?.to_owned();\n    let pointer = state.operand_stack.pop()?;")]),
    dict(id="M06", props=["C05", "C13"], what="pop_sequence without reverse", edits=[(ST,
        "        result.map(|mut sequence| {sequence.reverse(); sequence})", "        result")]),
    dict(id="M33", props=["C05", "C13"], what="eval_print uses pop_sequence", edits=[(I,
        "state.operand_stack.pop_reverse_sequence(arguments.to_usize())?;", "state.operand_stack.pop_sequence(arguments.to_usize())?;")]),
    dict(id="M5a", props=["C05"], what="return address taken before the bump (call returns to itself)", edits=[(I,
        "    state.instruction_pointer.bump(program);\n    let frame = Frame::from(state.instruction_pointer.get(), veccat!(argument_pointers, local_pointers));",
        "    let frame = Frame::from(state.instruction_pointer.get(), veccat!(argument_pointers, local_pointers));\n    state.instruction_pointer.bump(program);")]),
    dict(id="M5b", props=["C05"], what="eval_array pops size before initializer", edits=[(I,
        "    let initializer = state.operand_stack.pop()?;\n    let size = state.operand_stack.pop()?;",
        "    let size = state.operand_stack.pop()?;\n    let initializer = state.operand_stack.pop()?;")]),
    dict(id="M5c", props=["C05"], what="eval_object walks slots forwards while popping", edits=[(I,
        "    for name in slots.into_iter().rev() {", "    for name in slots.into_iter() {")]),
    dict(id="M5d", props=["C05"], what="dispatcher sends GetField to eval_set_field", edits=[(I,
        "        OpCode::GetField { name } => eval_get_field(program, state, name),", "        OpCode::GetField { name } => eval_set_field(program, state, name),")]),
    dict(id="M5e", props=["C05"], what="entry frame gets a return address", edits=[(ST,
        "frame_stack.push(Frame::with_capacity(None, entry_locals.to_usize(), Pointer::Null));",
        "frame_stack.push(Frame::with_capacity(Some(*entry_address), entry_locals.to_usize(), Pointer::Null));")]),
    dict(id="M5f", props=["C05"], what="user method frame puts receiver last", edits=[(I,
        "veccat!(vec![pointer], argument_pointers, local_pointers)", "veccat!(argument_pointers, vec![pointer], local_pointers)")]),
]

MUTANTS += [
    dict(id="M08", props=["C04"], what="u16 big-endian on both sides", edits=[
        (S, "pub fn write_u16<W: Write>(writer: &mut W, value: u16) -> Result<()> {\n    let buf = value.to_le_bytes();", "pub fn write_u16<W: Write>(writer: &mut W, value: u16) -> Result<()> {\n    let buf = value.to_be_bytes();"),
        (S, "    reader.read_exact(&mut buf).expect(\"Problem reading u16 from data stream\");\n    u16::from_le_bytes(buf)", "    reader.read_exact(&mut buf).expect(\"Problem reading u16 from data stream\");\n    u16::from_be_bytes(buf)")]),
    dict(id="M34", props=["C04"], what="Method writes/reads locals before parameters (both sides)", edits=[
        (P, "                parameters.serialize(sink)?;\n                locals.serialize(sink)?;", "                locals.serialize(sink)?;\n                parameters.serialize(sink)?;"),
        (P, "                parameters: Arity::from_bytes(input),\n                locals: Size::from_bytes(input),", "                locals: Size::from_bytes(input),\n                parameters: Arity::from_bytes(input),")]),
    dict(id="M3a", props=["C03", "C04"], what="reader decodes Slot name as big-endian (writer unchanged)", edits=[
        (P, "            0x04 => ProgramObject::Slot { name: ConstantPoolIndex::from_bytes(input) },", "            0x04 => ProgramObject::Slot { name: ConstantPoolIndex::new(serializable::read_u16(input).swap_bytes()) },")]),
    dict(id="M3b", props=["C03", "C04"], what="reader swaps the tags of Jump and Branch", edits=[
        (B, "            0x0D => Branch       { label:     ConstantPoolIndex::from_bytes(input)  },\n            0x0E => Jump         { label:     ConstantPoolIndex::from_bytes(input)  },",
            "            0x0E => Branch       { label:     ConstantPoolIndex::from_bytes(input)  },\n            0x0D => Jump         { label:     ConstantPoolIndex::from_bytes(input)  },")]),
    dict(id="M3c", props=["C03", "C04"], what="writer emits method code reversed", edits=[
        (P, "        Ok((start..end).map(|index| &self.0[index]).collect())", "        Ok((start..end).rev().map(|index| &self.0[index]).collect())")]),
    dict(id="M3d", props=["C03"], what="range assertion of write_usize_as_u16 removed", edits=[
        (S, "    assert!(value <= 65_535usize); // Max u16 value.\n", "")]),
    dict(id="M3e", props=["C03", "C04"], what="CallFunction writes arity before name (writer only)", edits=[
        (B, "            CallFunction { name: function, arguments } => {\n                function.serialize(sink)?;\n                arguments.serialize(sink)\n            },",
            "            CallFunction { name: function, arguments } => {\n                arguments.serialize(sink)?;\n                function.serialize(sink)\n            },")]),
]

MUTANTS += [
    dict(id="M64", props=["C07"], what="GREATER => Operator::GreaterEqual", edits=[(G, "    GREATER  => Operator::Greater,", "    GREATER  => Operator::GreaterEqual,")]),
    dict(id="M7a", props=["C07"], what="from_binary_expression folds from the right", edits=[(PA,
        "        other_operators_and_operands.into_iter()\n            .fold(first_operand, |left, (operator, right)| {\n                AST::operation(operator, left, right)\n            })",
        "        other_operators_and_operands.into_iter().rev()\n            .fold(first_operand, |left, (operator, right)| {\n                AST::operation(operator, left, right)\n            })")]),
    dict(id="M7b", props=["C07"], what="fold step swaps operands", edits=[(PA,
        "                AST::operation(operator, left, right)\n            })\n    }", "                AST::operation(operator, right, left)\n            })\n    }")]),
    dict(id="M7c", props=["C07"], what="line comments containing a star are no longer comments (regex change)", edits=[(G,
        r'|(//.*)" => { },', r'|(//[^*\n]*)" => { },')]),
    dict(id="M7d", props=["C07", "C15"], what="string literal admits \\e escape", edits=[(G,
        r'r#""([^\\"]|\\[~ntr\\"])*""# => STRING_LITERAL,', r'r#""([^\\"]|\\[~ntre\\"])*""# => STRING_LITERAL,')]),
    dict(id="M7f", props=["C07"], what="a[i] <- v swaps index and value", edits=[(G,
        "        AST::AssignArray{array: Box::new(array), index: Box::new(index), value: Box::new(v)},", "        AST::AssignArray{array: Box::new(array), index: Box::new(v), value: Box::new(index)},")]),
]

MUTANTS += [
    dict(id="M81", props=["C01", "C14"], what="AccessArray arm registers \"set\"", edits=[(C,
        'let name = program.constant_pool.register(ProgramObject::String("get".to_string()));', 'let name = program.constant_pool.register(ProgramObject::String("set".to_string()));')]),
    dict(id="M1a", props=["C01"], what="AssignField stores under the object's... wrong name constant (format of a sibling)", edits=[(C,
        "                let index = program.constant_pool.register(ProgramObject::from_str(name));\n                active_buffer.emit(OpCode::SetField { name: index });",
        "                let index = program.constant_pool.register(ProgramObject::from_str(\"value\"));\n                active_buffer.emit(OpCode::SetField { name: index });")]),
    dict(id="M1b", props=["C01"], what="Integer literal registers value+0 as a Boolean when zero (wrong constant kind)", edits=[(C,
        "                let constant = ProgramObject::Integer(*value);", "                let constant = if *value == 0 { ProgramObject::Boolean(false) } else { ProgramObject::Integer(*value) };")]),
    dict(id="M1c", props=["C01"], what="Loop leaves `false` instead of null", edits=[(C,
        "                if keep_result {\n                    let constant = ProgramObject::Null;", "                if keep_result {\n                    let constant = ProgramObject::Boolean(false);")]),
    dict(id="M1d", props=["C01"], what="run compiles a fresh Null AST instead of the parsed one", edits=[(M,
        "        let program = bytecode::compile(&ast)\n            .expect(\"Compiler error\");\n\n        evaluate_with_memory_config(&program, self.heap_size, self.heap_log.clone())\n            .expect(\"Interpreter error\")\n    }\n\n    pub fn selected_input(&self) -> Result<NamedSource> {\n        NamedSource::from(self.input.as_ref())\n    }\n}\n\nimpl BytecodeInterpreterAction",
        "        let program = bytecode::compile(&if false { ast } else { AST::top(vec![AST::null()]) })\n            .expect(\"Compiler error\");\n\n        evaluate_with_memory_config(&program, self.heap_size, self.heap_log.clone())\n            .expect(\"Interpreter error\")\n    }\n\n    pub fn selected_input(&self) -> Result<NamedSource> {\n        NamedSource::from(self.input.as_ref())\n    }\n}\n\nimpl BytecodeInterpreterAction")]),
]

# rules added in rounds 2-3
MUTANTS += [
    dict(id="M8f", props=["C08"], what="compile action drops its sink without flushing", edits=[
        (M, "        sink.flush()\n            .expect(\"Cannot write program to output.\");\n", "")]),
    dict(id="M8g", props=["C08"], what="write_utf8: one write, then write_all from the wrong offset", edits=[
        (S, "    writer.write_all(bytes)?;\n    Ok(())\n        //.expect(&format!(\"Problem writing UTF-8",
            "    let n = writer.write(bytes)?;\n    writer.write_all(&bytes[n.min(1)..])?;\n    Ok(())\n        //.expect(&format!(\"Problem writing UTF-8")]),
    dict(id="M8h", props=["C08"], what="compile action flushes but drops the Result", edits=[
        (M, "        sink.flush()\n            .expect(\"Cannot write program to output.\");\n", "        let _ = sink.flush();\n")]),
    dict(id="M6f", props=["C06"], what="JSON text is trimmed and re-spaced after serialisation", edits=[
        (M, "            ASTSerializer::JSON  => serde_json::to_string(&ast)?,", "            ASTSerializer::JSON  => serde_json::to_string(&ast)?.replace(\", \", \",\"),")]),
    dict(id="M6g", props=["C06"], what="deserialize trims the source first", edits=[
        (M, "            ASTSerializer::JSON  => Ok(serde_json::from_str(source)?),", "            ASTSerializer::JSON  => Ok(serde_json::from_str(&source.replace(\"\\r\", \"\"))?),")]),
    dict(id="M3f", props=["C03", "C04", "C17"], what="loader pushes a constant only if it differs from the previous one", edits=[
        (P, "        let constants: Vec<ProgramObject> =\n            (0..size).map(|_| ProgramObject::from_bytes(input, code)).collect();\n\n        ConstantPool(constants)",
            "        let mut constants: Vec<ProgramObject> = Vec::new();\n        for _ in 0..size {\n            let constant = ProgramObject::from_bytes(input, code);\n            if constants.last() != Some(&constant) { constants.push(constant); }\n        }\n\n        ConstantPool(constants)")]),
    dict(id="M10f", props=["C10", "C09"], what="discarded method calls on literal receivers are compiled away", edits=[
        (C, "            AST::CallMethod { object, name: Identifier(name), arguments } => {", "            AST::CallMethod { object, .. } if !keep_result && matches!(**object, AST::Integer(_)) => {}\n            AST::CallMethod { object, name: Identifier(name), arguments } => {")]),
    dict(id="M11f", props=["C11"], what="release profile aborts on panic", edits=[
        ("Cargo.toml", "[dependencies]", "[profile.release]\npanic = \"abort\"\n\n[dependencies]")]),
]

MUTANTS += [
    dict(id="M7h", props=["C07"], what="the keyword `false` builds the literal true", edits=[
        (G, "    FALSE                                => AST::boolean(false),", "    FALSE                                => AST::boolean(true),")]),
    dict(id="M7i", props=["C07"], what="number literals are parsed and then wrapped to 16 bits", edits=[
        (G, "    NUMBER                              => AST::integer(i32::from_str(<>).unwrap()),", "    NUMBER                              => AST::integer(i32::from_str(<>).unwrap() as i16 as i32),")]),
    dict(id="M4f", props=["C04"], what="the compiler prints a progress note to stdout", edits=[
        (C, "            AST::Print { format, arguments } => {", "            AST::Print { format, arguments } => {\n                if arguments.len() > 8 { println!(\"note: long print\"); }")]),
    dict(id="M12f", props=["C12", "C07"], what="AST::block drops the Block node around a single statement", edits=[
        (PA, "    pub fn block(statements: Vec<AST>) -> Self {\n        Self::Block(statements.into_boxed())", "    pub fn block(mut statements: Vec<AST>) -> Self {\n        if statements.len() == 1 { return statements.remove(0); }\n        Self::Block(statements.into_boxed())")]),
]

MUTANTS += [
    dict(id="M6i", props=["C06"], what="compile prefers the input's extension over --input-format", edits=[
        (M, "        if self.input_format.is_some() {\n            self.input_format\n        } else {\n            self.selected_input().unwrap().extension().map(|s| {\n                ASTSerializer::from_extension(s.as_str())\n            }).flatten()\n        }",
            "        self.selected_input().unwrap().extension().map(|s| {\n            ASTSerializer::from_extension(s.as_str())\n        }).flatten().or(self.input_format)")]),
    dict(id="M6j", props=["C06"], what="parse without --format and -o defaults to JSON", edits=[
        (M, "                .unwrap_or(ASTSerializer::INTERNAL)", "                .unwrap_or(ASTSerializer::JSON)")]),
]

MUTANTS = [m for m in MUTANTS if m["edits"]]

BENIGN = [
    dict(id="B01", props=["C08", "C10", "C11", "C16", "C14", "C09"], what="rename a local in allocate", edits=[
        (H, "        let index = HeapIndex::from(self.memory.len());\n        self.memory.push(object);\n        index\n",
            "        let idx = HeapIndex::from(self.memory.len());\n        self.memory.push(object);\n        idx\n")]),
    dict(id="B02", props=["C08", "C10", "C11"], what="change an error message", edits=[
        (I, "\"Negative value `{}` cannot be used to specify the size of an array.\"", "\"Array size `{}` is negative.\"")]),
    dict(id="B03", props=["C08", "C10", "C11", "C16", "C02", "C01", "C13"], what="emit_unless -> if !keep { emit }", edits=[
        (C, "                active_buffer.emit(OpCode::GetField { name: index });\n                active_buffer.emit_unless(OpCode::Drop, keep_result);",
            "                active_buffer.emit(OpCode::GetField { name: index });\n                if !keep_result { active_buffer.emit(OpCode::Drop); }")]),
    dict(id="B04", props=["C08", "C10", "C11", "C16", "C14"], what="add an unused getter to Heap", edits=[
        (H, "    pub fn dereference(&self, index: &HeapIndex)", "    #[allow(dead_code)]\n    pub fn object_count(&self) -> usize { self.memory.len() }\n    pub fn dereference(&self, index: &HeapIndex)")]),
    dict(id="B05", props=["C08", "C03", "C04"], what="write_u16 via a local helper", edits=[
        (S, "pub fn write_u16<W: Write>(writer: &mut W, value: u16) -> Result<()> {\n    let buf = value.to_le_bytes();\n    writer.write_all(&buf)?;",
            "fn put<W: Write>(writer: &mut W, buf: &[u8]) -> Result<()> {\n    writer.write_all(buf)?;\n    Ok(())\n}\n\npub fn write_u16<W: Write>(writer: &mut W, value: u16) -> Result<()> {\n    let buf = value.to_le_bytes();\n    put(writer, &buf)?;")]),
    dict(id="B06", props=["C10", "C05", "C13"], what="for -> for_each free loop in eval_object reordered statements", edits=[
        (I, "    let mut slots = Vec::new();\n    let mut methods = IndexMap::new();\n", "    let mut methods = IndexMap::new();\n    let mut slots = Vec::new();\n")]),
    dict(id="B07", props=["C09", "C11", "C05"], what="wrapping ops via checked form", edits=[
        (I, '("+",  Pointer::Integer(argument)) => Pointer::from(receiver.wrapping_add(*argument)),',
            '("+",  Pointer::Integer(argument)) => Pointer::from(i32::wrapping_add(*receiver, *argument)),')]),
    dict(id="B08", props=["C16", "C11"], what="allocate computes index before logging", edits=[
        (H, "        heap_log!(ALLOCATE -> self.log, self.size);\n        let index = HeapIndex::from(self.memory.len());",
            "        let index = HeapIndex::from(self.memory.len());\n        heap_log!(ALLOCATE -> self.log, self.size);")]),
]

BENIGN += [
    dict(id="B09", props=["C01", "C02", "C13", "C12"], what="literal arms share a helper", edits=[
        (C, "            AST::Null => {\n                let constant = ProgramObject::Null;\n                let index = program.constant_pool.register(constant);\n                active_buffer.emit(OpCode::Literal { index });\n                active_buffer.emit_unless(OpCode::Drop, keep_result);\n            }",
            "            AST::Null => {\n                emit_literal(program, active_buffer, ProgramObject::Null, keep_result);\n            }"),
        (C, "fn compile_function_definition(name: &str,", "fn emit_literal(program: &mut ProgramGenerator, buffer: &mut Code, constant: ProgramObject, keep: bool) {\n    let index = program.constant_pool.register(constant);\n    buffer.emit(OpCode::Literal { index });\n    if !keep { buffer.emit(OpCode::Drop); }\n}\n\nfn compile_function_definition(name: &str,")]),
    dict(id="B10", props=["C05", "C10", "C14"], what="eval_get_field pops before looking up the name", edits=[
        (I, "    let program_object = program.constant_pool.get(index)?;\n    let name = program_object.as_str()?;\n    let pointer = state.operand_stack.pop()?;\n    let heap_pointer = pointer.into_heap_reference()?;\n    let object = state.heap.dereference(&heap_pointer)?;\n",
            "    let pointer = state.operand_stack.pop()?;\n    let program_object = program.constant_pool.get(index)?;\n    let name = program_object.as_str()?;\n    let heap_pointer = pointer.into_heap_reference()?;\n    let object = state.heap.dereference(&heap_pointer)?;\n")]),
    dict(id="B11", props=["C03", "C04", "C08"], what="ConstantPool::serialize with a for loop", edits=[
        (P, "        self.0.iter()\n            .map(|program_object| program_object.serialize(sink, code))\n            .collect()\n    }",
            "        for program_object in self.0.iter() {\n            program_object.serialize(sink, code)?;\n        }\n        Ok(())\n    }")]),
    dict(id="B12", props=["C17"], what="Display for OpCode::Array via write_str", edits=[
        (B, "            OpCode::Array =>\n                write!(f, \"array\"),", "            OpCode::Array =>\n                f.write_str(\"array\"),")]),
    dict(id="B13", props=["C15", "C11"], what="object fields sorted with sort_by on the name", edits=[
        (H, "        sorted_fields.sort_by_key(|(name, _)| *name);", "        sorted_fields.sort_by(|a, b| a.0.cmp(b.0));")]),
    dict(id="B14", props=["C16", "C11"], what="allocate binds the object size first", edits=[
        (H, "        self.size += object.size();\n", "        let bytes = object.size();\n        self.size += bytes;\n")]),
    dict(id="B17", props=["C04", "C08", "C06"], what="rename the sink local of the compile action", edits=[
        (M, "        let mut sink = self.selected_output()\n            .expect(\"Cannot open an output for the compiler.\");", "        let mut out = self.selected_output()\n            .expect(\"Cannot open an output for the compiler.\");"),
        (M, "        output_serializer.serialize(&program, &mut sink)", "        output_serializer.serialize(&program, &mut out)"),
        (M, "        sink.flush()\n            .expect(\"Cannot write program to output.\");", "        out.flush()\n            .expect(\"Cannot write program to output.\");")]),
    dict(id="B18", props=["C01", "C10"], what="rename locals in RunAction::run", edits=[
        (M, "        let ast: AST = TopLevelParser::new()\n            .parse(&source.into_string()\n            .expect(\"Error reading input\"))\n            .expect(\"Parse error\");\n\n        let program = bytecode::compile(&ast)\n            .expect(\"Compiler error\");\n\n        evaluate_with_memory_config(&program, self.heap_size, self.heap_log.clone())\n            .expect(\"Interpreter error\")\n    }",
            "        let tree: AST = TopLevelParser::new()\n            .parse(&source.into_string()\n            .expect(\"Error reading input\"))\n            .expect(\"Parse error\");\n\n        let prog = bytecode::compile(&tree)\n            .expect(\"Compiler error\");\n\n        evaluate_with_memory_config(&prog, self.heap_size, self.heap_log.clone())\n            .expect(\"Interpreter error\")\n    }")]),
    dict(id="B19", props=["C05", "C10", "C15", "C01"], what="rename eval_literal's and eval_print's parameters", edits=[
        (I, "pub fn eval_literal(program: &Program, state: &mut State, index: &ConstantPoolIndex) -> Result<()> {\n    let program_object = program.constant_pool.get(index)?;",
            "pub fn eval_literal(program: &Program, state: &mut State, constant: &ConstantPoolIndex) -> Result<()> {\n    let program_object = program.constant_pool.get(constant)?;"),
        (I, "pub fn eval_print<W>(program: &Program, state: &mut State, output: &mut W, index: &ConstantPoolIndex, arguments: &Arity) -> Result<()> where W: Write {\n    let program_object = program.constant_pool.get(index)?;\n    let format = program_object.as_str()?;\n    let mut argument_pointers = state.operand_stack.pop_reverse_sequence(arguments.to_usize())?;",
            "pub fn eval_print<W>(program: &Program, state: &mut State, sink: &mut W, format_index: &ConstantPoolIndex, arity: &Arity) -> Result<()> where W: Write {\n    let program_object = program.constant_pool.get(format_index)?;\n    let format = program_object.as_str()?;\n    let mut argument_pointers = state.operand_stack.pop_reverse_sequence(arity.to_usize())?;"),
        (I, "    output.write_str(buffer.as_str())?;", "    sink.write_str(buffer.as_str())?;")]),
    dict(id="B20", props=["C09", "C05", "C01"], what="integer division through a helper that keeps the plain operator", edits=[
        (I, '("/",  Pointer::Integer(argument)) => Pointer::from(receiver /  argument),', '("/",  Pointer::Integer(argument)) => Pointer::from(quotient(*receiver, *argument)),'),
        (I, "fn dispatch_boolean_method(", "fn quotient(a: i32, b: i32) -> i32 { a / b }\n\nfn dispatch_boolean_method(")]),
    dict(id="B21", props=["C12", "C02", "C01", "C11"], what="has_local via any()", edits=[
        (C, "        for scope in self.scopes.iter().rev() {\n            if self.locals.contains_key(&(*scope, id.to_string())) {\n                return true;\n            }\n        }\n        return false;",
            "        self.scopes.iter().rev().any(|scope| self.locals.contains_key(&(*scope, id.to_string())))")]),
    dict(id="B22", props=["C10", "C16", "C14", "C05"], what="eval_array builds the vector with vec![..; n]", edits=[
        (I, "    let elements = repeat(initializer).take(n as usize).collect();", "    let elements = vec![initializer; n as usize];")]),
    dict(id="B23", props=["C02", "C13", "C01", "C05"], what="label names use another separator", edits=[
        (C, '        let name = format!("{}:{}", prefix.into(), group);', '        let name = format!("{}_{}_L", prefix.into(), group);')]),
    dict(id="B24", props=["C06", "C01", "C10"], what="into_string reads all bytes, then decodes strictly", edits=[
        (M, "        let mut string = String::new();\n        self.source.read_to_string(&mut string)?;\n        Ok(string)",
            "        let mut bytes = Vec::new();\n        self.source.read_to_end(&mut bytes)?;\n        Ok(String::from_utf8(bytes)?)")]),
    dict(id="B25", props=["C08", "C03", "C04"], what="write_utf8 with std's resume loop instead of write_all", edits=[
        (S, "    writer.write_all(bytes)?;\n    Ok(())\n        //.expect(&format!(\"Problem writing UTF-8",
            "    let mut rest = bytes;\n    while !rest.is_empty() {\n        let n = writer.write(rest)?;\n        if n == 0 { anyhow::bail!(\"sink is full\"); }\n        rest = &rest[n..];\n    }\n    Ok(())\n        //.expect(&format!(\"Problem writing UTF-8")]),
    dict(id="B26", props=["C08", "C03", "C04"], what="write_utf8: one write, then write_all of the rest", edits=[
        (S, "    writer.write_all(bytes)?;\n    Ok(())\n        //.expect(&format!(\"Problem writing UTF-8",
            "    let n = writer.write(bytes)?;\n    writer.write_all(&bytes[n..])?;\n    Ok(())\n        //.expect(&format!(\"Problem writing UTF-8")]),
    dict(id="B27", props=["C03", "C04"], what="read_cpi_vector with an explicit Vec turbofish", edits=[
        (P, "            .map(ConstantPoolIndex::new)\n            .collect()", "            .map(ConstantPoolIndex::new)\n            .collect::<Vec<ConstantPoolIndex>>()")]),
    dict(id="B28", props=["C08", "C04", "C06"], what="NamedSink flushes (and fails loudly) in Drop instead of the actions flushing explicitly", edits=[
        (M, '        sink.flush()\n            .expect("Cannot write program to output.");\n', ''),
        (M, '        sink.flush()\n            .expect("Cannot write to output");\n', ''),
        (M, 'impl Write for NamedSink {', 'impl Drop for NamedSink {\n    fn drop(&mut self) {\n        self.sink.flush().expect("Cannot write to output");\n    }\n}\nimpl Write for NamedSink {')]),
]

# ---------------------------------------------------------------- round 6: the semantic renderer / rendering / action-value rules
G = "src/fml.lalrpop"
MUTANTS += [
    dict(id="M15f", props=["C15"], what="object fields sorted by name descending", edits=[
        (H, "        sorted_fields.sort_by_key(|(name, _)| *name);", "        sorted_fields.sort_by(|(a, _), (b, _)| b.cmp(a));")]),
    dict(id="M15g", props=["C15"], what="object without parent joins its fields with ',' (no space)", edits=[
        (H, '            None => Ok(format!("object({})", fields.join(", "))),', '            None => Ok(format!("object({})", fields.join(","))),')]),
    dict(id="M17f", props=["C17"], what="instructions are numbered from 1 in the listing", edits=[
        (P, '            writeln!(f, "{}: {}", i, opcode)?;', '            writeln!(f, "{}: {}", i + 1, opcode)?;')]),
    dict(id="M7j", props=["C07"], what="if-then-else action hands the branches to the constructor in swapped order", edits=[
        (G, "AST::conditional(condition, consequent, alternative)", "AST::conditional(condition, alternative, consequent)")]),
    dict(id="M7k", props=["C07"], what="Expressions puts the first statement last", edits=[
        (G, "        let mut all = VecDeque::from(elements);\n        all.push_front(element);\n        Vec::from(all)\n    }\n}\n\nExpression<openness>",
            "        let mut all = VecDeque::from(elements);\n        all.push_back(element);\n        Vec::from(all)\n    }\n}\n\nExpression<openness>")]),
]
BENIGN += [
    dict(id="B29", props=["C15", "C05", "C01"], what="object fields sorted with an explicit ascending name comparator", edits=[
        (H, "        sorted_fields.sort_by_key(|(name, _)| *name);", "        sorted_fields.sort_unstable_by(|(a, _), (b, _)| a.cmp(b));")]),
    dict(id="B30", props=["C17"], what="fixed mnemonic written with write_str", edits=[
        (B, '                write!(f, "array"),', '                f.write_str("array"),')]),
    dict(id="B31", props=["C07", "C01", "C12", "C02"], what="block action builds its list with push + extend", edits=[
        (G, "        let mut all = VecDeque::from(elements);\n        all.push_front(element);\n        Vec::from(all)\n    }\n}\n\nExpression<openness>",
            "        let mut all = Vec::with_capacity(elements.len() + 1);\n        all.push(element);\n        all.extend(elements);\n        all\n    }\n}\n\nExpression<openness>")]),
    dict(id="B32", props=["C07", "C01", "C13", "C14"], what="index assignment action calls the constructor helper", edits=[
        (G, "        AST::AssignArray{array: Box::new(array), index: Box::new(index), value: Box::new(v)},", "        AST::assign_array(array, index, v),")]),
]

# ---------------------------------------------------------------- round 6 (second half): readers, loader, placement
BENIGN += [
    dict(id="B33", props=["C03", "C04", "C06", "C08"], what="NamedSource built through a private constructor that only boxes the reader", edits=[
        (M, "    fn console() -> Result<NamedSource> {\n        let named_source = NamedSource {\n            name: Stream::Console,\n            source: Box::new(BufReader::new(std::io::stdin())),\n        };\n        Ok(named_source)\n    }",
            "    fn wrap<R>(name: Stream, reader: R) -> NamedSource where R: BufRead + 'static {\n        let source = Box::new(reader);\n        NamedSource { name, source }\n    }\n    fn console() -> Result<NamedSource> {\n        Ok(NamedSource::wrap(Stream::Console, BufReader::new(std::io::stdin())))\n    }"),
        (M, "            File::open(path).map(|file| NamedSource {\n                name: Stream::File(name.to_owned()),\n                source: Box::new(BufReader::new(file)),\n            }).map_err(",
            "            File::open(path).map(|file| NamedSource::wrap(Stream::File(name.to_owned()), BufReader::new(file))).map_err(")]),
]
MUTANTS += [
    dict(id="M3g", props=["C03", "C04", "C17"], what="the private reader constructor skips a leading NUL byte", edits=[
        (M, "    fn console() -> Result<NamedSource> {\n        let named_source = NamedSource {\n            name: Stream::Console,\n            source: Box::new(BufReader::new(std::io::stdin())),\n        };\n        Ok(named_source)\n    }",
            "    fn wrap<R>(name: Stream, reader: R) -> NamedSource where R: BufRead + 'static {\n        let mut source = Box::new(reader);\n        if source.fill_buf().map(|b| b.first() == Some(&0u8) && b.len() == 1).unwrap_or(false) { source.consume(1); }\n        NamedSource { name, source }\n    }\n    fn console() -> Result<NamedSource> {\n        Ok(NamedSource::wrap(Stream::Console, BufReader::new(std::io::stdin())))\n    }")]),
]
# ---- round 8: both-ways tests for R15.sink, R6.handoff, R11.cli, R14 "never passed over", the lexer alphabet
MUTANTS += [
    dict(id="M15h", props=["C15"], what="`fml run` prints a banner line on stdout before the program's output", edits=[
        (M, "        let program = bytecode::compile(&ast)\n            .expect(\"Compiler error\");\n\n        evaluate_with_memory_config(&program, self.heap_size, self.heap_log.clone())\n            .expect(\"Interpreter error\")\n    }\n\n    pub fn selected_input(&self) -> Result<NamedSource> {\n        NamedSource::from(self.input.as_ref())\n    }\n}\n\nimpl BytecodeInterpreterAction {",
            "        let program = bytecode::compile(&ast)\n            .expect(\"Compiler error\");\n\n        println!(\"-- fml --\");\n        evaluate_with_memory_config(&program, self.heap_size, self.heap_log.clone())\n            .expect(\"Interpreter error\")\n    }\n\n    pub fn selected_input(&self) -> Result<NamedSource> {\n        NamedSource::from(self.input.as_ref())\n    }\n}\n\nimpl BytecodeInterpreterAction {")]),
    dict(id="M15i", props=["C15"], what="the stdout sink writes the text with CR LF line ends", edits=[
        (ST, "        match std::io::stdout().write_all(s.as_bytes()) {", "        match std::io::stdout().write_all(s.replace('\\n', \"\\r\\n\").as_bytes()) {")]),
    dict(id="M6h", props=["C06"], what="`fml compile` drops repeated adjacent top-level statements before compiling", edits=[
        (M, "        let program = bytecode::compile(&ast)\n            .expect(\"Compiler Error\");",
            "        let ast = match ast { AST::Top(mut es) => { es.dedup(); AST::Top(es) }, other => other };\n        let program = bytecode::compile(&ast)\n            .expect(\"Compiler Error\");")]),
    dict(id="M11h", props=["C11"], what="two options of `fml run` share the long name --heap-log (clap checks this in debug builds only)", edits=[
        (M, "    #[clap(long=\"heap-size\", name=\"MBs\", about = \"Maximum heap size in megabytes\", default_value = \"0\")]\n    pub heap_size: usize,\n    #[clap(long=\"heap-log\", name=\"LOG_FILE\"",
            "    #[clap(long=\"heap-log\", name=\"MBs\", about = \"Maximum heap size in megabytes\", default_value = \"0\")]\n    pub heap_size: usize,\n    #[clap(long=\"heap-log\", name=\"LOG_FILE\"")]),
    dict(id="M14h", props=["C14"], what="a member that is not a method is passed over and the parent is asked", edits=[
        (I, "    let method_option = object_instance.methods\n            .get(&method_name.to_string())\n            .map(|method| method.clone());",
            "    let method_option = object_instance.methods\n            .get(&method_name.to_string())\n            .filter(|method| matches!(method, ProgramObject::Method { .. }))\n            .map(|method| method.clone());")]),
    dict(id="M7l", props=["C07"], what="white space skip rule is ASCII only ((?-u:\\s) spelled as a class)", edits=[
        (G, "    r\"\\s*\" => { },", "    r\"[ \\t\\n\\r]*\" => { },")]),
]
BENIGN += [
    dict(id="B34", props=["C15", "C06", "C10"], what="the disassembler prints its listing through a private helper using print!", edits=[
        (M, "        println!(\"{}\", program);\n    }", "        Self::show(&program);\n    }\n\n    fn show(program: &Program) {\n        print!(\"{}\\n\", program);\n    }")]),
    dict(id="B35", props=["C06", "C01"], what="`fml run` obtains the AST through a private helper", edits=[
        (M, "        let source = self.selected_input()\n            .expect(\"Cannot open FML program.\");\n\n        let ast: AST = TopLevelParser::new()\n            .parse(&source.into_string()\n            .expect(\"Error reading input\"))\n            .expect(\"Parse error\");\n\n        let program = bytecode::compile(&ast)\n            .expect(\"Compiler error\");",
            "        let ast = self.parsed_input();\n\n        let program = bytecode::compile(&ast)\n            .expect(\"Compiler error\");"),
        (M, "impl BytecodeInterpreterAction {\n    pub fn interpret(&self) {",
            "impl RunAction {\n    fn parsed_input(&self) -> AST {\n        let source = self.selected_input()\n            .expect(\"Cannot open FML program.\");\n        TopLevelParser::new()\n            .parse(&source.into_string()\n            .expect(\"Error reading input\"))\n            .expect(\"Parse error\")\n    }\n}\n\nimpl BytecodeInterpreterAction {\n    pub fn interpret(&self) {")]),
]
