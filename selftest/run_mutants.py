#!/usr/bin/env python3-vt
"""Checker self-validation: apply seeded edits to a scratch copy of /repo (outside /repo and
/verif), run the named checks against the copy, and compare with the expectation.

usage: selftest/run_mutants.py [--only ID[,ID…]] [--props C02,C10] [--benign] [--keep]
"""
import argparse
import os
import shutil
import subprocess
import sys
import tempfile
import json
import importlib.util

HERE = os.path.dirname(os.path.abspath(__file__))
VERIF = os.path.dirname(HERE)
REPO = "/repo"


def load_mutants():
    spec = importlib.util.spec_from_file_location("mutants", os.path.join(HERE, "mutants.py"))
    m = importlib.util.module_from_spec(spec)
    spec.loader.exec_module(m)
    return m


def make_scratch():
    d = tempfile.mkdtemp(prefix="fmlscratch-")
    for rel in ("Cargo.toml", "Cargo.lock", "build.rs"):
        shutil.copy2(os.path.join(REPO, rel), os.path.join(d, rel))
    shutil.copytree(os.path.join(REPO, "src"), os.path.join(d, "src"))
    return d


def apply_edits(d, edits):
    for (rel, old, new) in edits:
        p = os.path.join(d, rel)
        s = open(p).read()
        if old not in s:
            raise RuntimeError("edit does not apply: %r not in %s" % (old[:60], rel))
        s = s.replace(old, new, 1)
        open(p, "w").write(s)


def apply_patch(d, patch):
    r = subprocess.run(["git", "apply", "--whitespace=nowarn", "--exclude=_seed/*", patch], cwd=d, stdout=subprocess.PIPE, stderr=subprocess.STDOUT, text=True)
    if r.returncode != 0:
        raise RuntimeError("patch does not apply to the current tree: %s" % r.stdout.strip().splitlines()[-1:] )


def patch_corpus(kind):
    """independently written changes kept as patches: seeded/ (property-breaking) or selftest/refactorings/ (benign)"""
    base = os.path.join(VERIF, "seeded") if kind == "seeded" else os.path.join(HERE, "refactorings")
    out = []
    for name in sorted(os.listdir(base)) if os.path.isdir(base) else []:
        mp = os.path.join(base, name, "meta.json")
        pp = os.path.join(base, name, "patch.diff")
        if not (os.path.exists(mp) and os.path.exists(pp)):
            continue
        meta = json.load(open(mp))
        prop = meta.get("breaks_property") or meta.get("targets_property_code")
        fired = sorted((meta.get("checks_fired_at_confirmation") or {}).keys())
        props = [prop] + [p for p in fired if p != prop] if kind == "seeded" else ["C%02d" % i for i in range(1, 18)]
        out.append(dict(id=name, props=props, patch=pp, what="%s (%s)" % (kind, prop), edits=[("patch",)]))
    return out


def run_check(d, pid, tier="quick"):
    env = dict(os.environ, FML_REPO=d, FML_SCRATCH="1", FML_EVIDENCE_DIR=os.path.join(d, "evidence"))
    r = subprocess.run([os.path.join(VERIF, "bin", "check"), pid, "--tier", tier], env=env, cwd=VERIF,
                       stdout=subprocess.PIPE, stderr=subprocess.STDOUT, text=True)
    return r.returncode, r.stdout


def main():
    ap = argparse.ArgumentParser()
    ap.add_argument("--only", default="")
    ap.add_argument("--props", default="")
    ap.add_argument("--benign", action="store_true")
    ap.add_argument("--seeded", action="store_true", help="the independently written property-breaking patches in seeded/")
    ap.add_argument("--refactorings", action="store_true", help="the independently written behaviour-preserving patches in selftest/refactorings/")
    ap.add_argument("--verbose", "-v", action="store_true")
    a = ap.parse_args()
    m = load_mutants()
    only = set(x for x in a.only.split(",") if x)
    implemented = set(x for x in a.props.split(",") if x)
    todo = m.BENIGN if a.benign else m.MUTANTS
    if a.seeded:
        todo = patch_corpus("seeded")
    if a.refactorings:
        todo = patch_corpus("refactorings")
        a.benign = True
    res = []
    for mu in todo:
        mid, props, edits = mu["id"], mu["props"], mu["edits"]
        if only and mid not in only:
            continue
        if a.seeded and implemented:
            # own property first: a seed counts for a property only if it breaks it (or fired there at confirmation)
            props = [p for p in props if p in implemented]
        else:
            props = [p for p in props if not implemented or p in implemented]
        if not props:
            continue
        d = make_scratch()
        try:
            try:
                if "patch" in mu:
                    apply_patch(d, mu["patch"])
                else:
                    apply_edits(d, edits)
            except RuntimeError as e:
                print("%-5s SKIP (%s)" % (mid, e))
                continue
            fired = {}
            for p in props:
                rc, out = run_check(d, p)
                lines = [l for l in out.splitlines() if l.startswith("  rule=")]
                fired[p] = (rc, lines, out)
            if a.benign:
                ok = all(rc == 0 for rc, _, _ in fired.values())
                print("%-5s %s benign: %s" % (mid, "SILENT " if ok else "ALARM!!", mu.get("what", "")))
            else:
                ok = any(rc == 1 for rc, _, _ in fired.values())
                print("%-5s %s %s: %s" % (mid, "CAUGHT " if ok else "MISSED!", ",".join(props), mu.get("what", "")))
            if a.verbose or (a.benign and not ok):
                for p, (rc, lines, out) in fired.items():
                    for l in lines[:6]:
                        print("        [%s] %s" % (p, l.strip()[:260]))
                    if rc not in (0, 1):
                        print(out[-1500:])
            elif not ok:
                for p, (rc, lines, out) in fired.items():
                    if rc not in (0, 1):
                        print(out[-1500:])
            res.append((mid, ok))
        finally:
            shutil.rmtree(d, ignore_errors=True)
    bad = [x for x, ok in res if not ok]
    print("%d/%d as expected; unexpected: %s" % (len(res) - len(bad), len(res), bad))
    # restore evidence for the real tree is the caller's job (checks rewrite evidence on each run)
    return 1 if bad else 0


if __name__ == "__main__":
    sys.exit(main())
